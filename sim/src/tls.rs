//! TLS actors: a real rustls client over the simulated transport, and a byte-exact
//! ClientHello builder for the scenarios in which the content of the first flight matters.

use crate::endpoint;
use crate::world::{Cut, PeerConn, PeerIo};
use crate::prng::Rng;
use rustls::client::{ServerCertVerified, ServerCertVerifier};
use rustls::{Certificate, ClientConfig, ServerName};
use std::sync::{Arc, Mutex};
use std::time::SystemTime;

struct Recorder {
    seen: Arc<Mutex<Option<Vec<u8>>>>,
}

impl ServerCertVerifier for Recorder {
    fn verify_server_cert(
        &self,
        end_entity: &Certificate,
        _intermediates: &[Certificate],
        _server_name: &ServerName,
        _scts: &mut dyn Iterator<Item = &[u8]>,
        _ocsp_response: &[u8],
        _now: SystemTime,
    ) -> Result<ServerCertVerified, rustls::Error> {
        *self.seen.lock().unwrap() = Some(end_entity.0.clone());
        Ok(ServerCertVerified::assertion())
    }
}

pub struct TlsParams {
    /// None: no SNI extension at all
    pub sni: Option<String>,
    pub alpn: Vec<Vec<u8>>,
    pub seg: Cut,
    pub max_fragment: Option<usize>,
    pub pace: Option<crate::world::Pace>,
}

pub struct TlsSession {
    pub stream: tokio_rustls::client::TlsStream<PeerIo>,
    pub alpn: Option<Vec<u8>>,
    /// index of the generated certificate the endpoint presented
    pub cert: Option<usize>,
}

fn cert_ders() -> &'static Vec<Vec<u8>> {
    static C: std::sync::OnceLock<Vec<Vec<u8>>> = std::sync::OnceLock::new();
    C.get_or_init(|| {
        (0..endpoint::N_CERTS)
            .map(|i| {
                let pem = std::fs::read_to_string(endpoint::cert_path(i)).unwrap_or_default();
                pem_to_der(&pem)
            })
            .collect()
    })
}

fn pem_to_der(pem: &str) -> Vec<u8> {
    use base64::Engine;
    let b64: String = pem.lines().filter(|l| !l.starts_with("-----")).collect();
    base64::engine::general_purpose::STANDARD
        .decode(b64.as_bytes())
        .unwrap_or_default()
}

pub async fn tls_connect(conn: PeerConn, p: TlsParams, rng: Rng) -> Result<TlsSession, String> {
    let seen = Arc::new(Mutex::new(None));
    let mut cfg = ClientConfig::builder()
        .with_safe_defaults()
        .with_custom_certificate_verifier(Arc::new(Recorder { seen: seen.clone() }))
        .with_no_client_auth();
    cfg.alpn_protocols = p.alpn.clone();
    cfg.enable_sni = p.sni.is_some();
    cfg.max_fragment_size = p.max_fragment;
    let name = match &p.sni {
        Some(s) => ServerName::try_from(s.as_str()).map_err(|e| format!("bad server name {:?}: {}", s, e))?,
        None => ServerName::IpAddress("198.51.100.1".parse().unwrap()),
    };
    let io = PeerIo {
        conn,
        seg: p.seg,
        rng,
        pace: p.pace,
    };
    let connector = tokio_rustls::TlsConnector::from(Arc::new(cfg));
    let stream = connector
        .connect(name, io)
        .await
        .map_err(|e| format!("tls: {}", e))?;
    let alpn = stream.get_ref().1.alpn_protocol().map(|x| x.to_vec());
    let cert = seen
        .lock()
        .unwrap()
        .as_ref()
        .and_then(|der| cert_ders().iter().position(|d| d == der));
    Ok(TlsSession { stream, alpn, cert })
}

// ---------------------------------------------------------------------------------------
// ClientHello builder
// ---------------------------------------------------------------------------------------

#[derive(Clone, Debug, serde::Serialize, serde::Deserialize)]
pub struct HelloSpec {
    pub random: Vec<u8>,
    pub session_id_len: usize,
    pub sni: Option<String>,
    pub alpn: Vec<String>,
    /// bytes of a fake large key share (post-quantum size) put before the x25519 share
    pub big_share: usize,
    pub padding: usize,
    /// split the handshake message over TLS records of at most this many bytes (0 = one record)
    pub record_limit: usize,
    pub extra_suites: usize,
}

fn put16(v: &mut Vec<u8>, x: usize) {
    v.extend_from_slice(&(x as u16).to_be_bytes());
}

fn ext(v: &mut Vec<u8>, ty: u16, body: &[u8]) {
    v.extend_from_slice(&ty.to_be_bytes());
    put16(v, body.len());
    v.extend_from_slice(body);
}

/// The ClientHello handshake message and its record-layer encoding
pub fn build_hello(s: &HelloSpec) -> Vec<u8> {
    let mut body = Vec::new();
    body.extend_from_slice(&[0x03, 0x03]);
    let mut random = s.random.clone();
    random.resize(32, 0);
    body.extend_from_slice(&random);
    body.push(s.session_id_len as u8);
    body.extend(std::iter::repeat(0xab).take(s.session_id_len));
    let mut suites: Vec<u16> = vec![0x1301, 0x1302, 0x1303, 0xc02b, 0xc02f, 0xc02c, 0xc030];
    for i in 0..s.extra_suites {
        suites.push(0x5a00 + i as u16);
    }
    put16(&mut body, suites.len() * 2);
    for c in suites {
        body.extend_from_slice(&c.to_be_bytes());
    }
    body.extend_from_slice(&[0x01, 0x00]);
    let mut exts = Vec::new();
    if let Some(name) = &s.sni {
        let mut b = Vec::new();
        put16(&mut b, name.len() + 3);
        b.push(0);
        put16(&mut b, name.len());
        b.extend_from_slice(name.as_bytes());
        ext(&mut exts, 0x0000, &b);
    }
    ext(&mut exts, 0x000a, &[0x00, 0x06, 0x00, 0x1d, 0x00, 0x17, 0x00, 0x18]);
    ext(&mut exts, 0x000b, &[0x01, 0x00]);
    ext(
        &mut exts,
        0x000d,
        &[0x00, 0x0c, 0x04, 0x03, 0x08, 0x04, 0x04, 0x01, 0x05, 0x03, 0x08, 0x05, 0x05, 0x01],
    );
    ext(&mut exts, 0x002b, &[0x04, 0x03, 0x04, 0x03, 0x03]);
    ext(&mut exts, 0x002d, &[0x01, 0x01]);
    {
        let mut shares = Vec::new();
        if s.big_share > 0 {
            shares.extend_from_slice(&[0x11, 0xec]);
            put16(&mut shares, s.big_share);
            shares.extend(std::iter::repeat(0x42).take(s.big_share));
        }
        shares.extend_from_slice(&[0x00, 0x1d]);
        put16(&mut shares, 32);
        // any 32 bytes are a valid X25519 public key
        shares.extend((0..32u8).map(|i| i.wrapping_mul(7).wrapping_add(9)));
        let mut b = Vec::new();
        put16(&mut b, shares.len());
        b.extend_from_slice(&shares);
        ext(&mut exts, 0x0033, &b);
    }
    if !s.alpn.is_empty() {
        let mut list = Vec::new();
        for a in &s.alpn {
            list.push(a.len() as u8);
            list.extend_from_slice(a.as_bytes());
        }
        let mut b = Vec::new();
        put16(&mut b, list.len());
        b.extend_from_slice(&list);
        ext(&mut exts, 0x0010, &b);
    }
    if s.padding > 0 {
        ext(&mut exts, 0x0015, &vec![0u8; s.padding]);
    }
    put16(&mut body, exts.len());
    body.extend_from_slice(&exts);

    let mut hs = vec![0x01];
    hs.extend_from_slice(&(body.len() as u32).to_be_bytes()[1..]);
    hs.extend_from_slice(&body);

    let limit = if s.record_limit == 0 { 16_384 } else { s.record_limit.clamp(64, 16_384) };
    let mut out = Vec::new();
    for frag in hs.chunks(limit) {
        out.extend_from_slice(&[0x16, 0x03, 0x01]);
        put16(&mut out, frag.len());
        out.extend_from_slice(frag);
    }
    out
}

/// Is the ClientHello contained, complete, in the first TLS record, and within `limit` bytes?
pub fn hello_in_first_record(wire: &[u8], limit: usize) -> bool {
    if wire.len() < 9 {
        return false;
    }
    let rec_len = u16::from_be_bytes([wire[3], wire[4]]) as usize;
    let hs_len = u32::from_be_bytes([0, wire[6], wire[7], wire[8]]) as usize;
    hs_len + 4 <= rec_len && rec_len + 5 <= limit
}
