//! One simulated run: runtime, virtual clock, world installation, global monitors.

use crate::world;
use serde::{Deserialize, Serialize};
use std::alloc::{GlobalAlloc, Layout, System};
use std::collections::BTreeMap;
use std::future::Future;
use std::sync::atomic::{AtomicBool, AtomicU64, AtomicUsize, Ordering};
use std::sync::Mutex;
use std::time::Duration;

// ---------------------------------------------------------------------------------------
// counting allocator
// ---------------------------------------------------------------------------------------

pub struct CountingAlloc;

static LIVE: AtomicUsize = AtomicUsize::new(0);
static PEAK: AtomicUsize = AtomicUsize::new(0);

unsafe impl GlobalAlloc for CountingAlloc {
    unsafe fn alloc(&self, l: Layout) -> *mut u8 {
        let p = System.alloc(l);
        if !p.is_null() {
            let live = LIVE.fetch_add(l.size(), Ordering::Relaxed) + l.size();
            PEAK.fetch_max(live, Ordering::Relaxed);
        }
        p
    }
    unsafe fn dealloc(&self, p: *mut u8, l: Layout) {
        System.dealloc(p, l);
        LIVE.fetch_sub(l.size(), Ordering::Relaxed);
    }
    unsafe fn realloc(&self, p: *mut u8, l: Layout, new_size: usize) -> *mut u8 {
        let q = System.realloc(p, l, new_size);
        if !q.is_null() {
            if new_size >= l.size() {
                let live = LIVE.fetch_add(new_size - l.size(), Ordering::Relaxed) + new_size - l.size();
                PEAK.fetch_max(live, Ordering::Relaxed);
            } else {
                LIVE.fetch_sub(l.size() - new_size, Ordering::Relaxed);
            }
        }
        q
    }
}

pub fn heap_live() -> usize {
    LIVE.load(Ordering::Relaxed)
}

pub fn heap_reset_peak() -> usize {
    let live = LIVE.load(Ordering::Relaxed);
    PEAK.store(live, Ordering::Relaxed);
    live
}

pub fn heap_peak() -> usize {
    PEAK.load(Ordering::Relaxed)
}

// ---------------------------------------------------------------------------------------
// panic hook
// ---------------------------------------------------------------------------------------

#[derive(Clone, Debug, Serialize, Deserialize)]
pub struct PanicRec {
    pub location: String,
    pub message: String,
    /// "endpoint", "harness" or "unknown": whose frame is innermost on the stack
    pub owner: String,
    /// innermost endpoint function on the stack, if any
    pub site: String,
}

fn classify_backtrace(bt: &str) -> (String, String) {
    for line in bt.lines() {
        let l = line.trim_start();
        // "12: trusttunnel::net_utils::skip_ipv6_header"
        let sym = match l.split_once(": ") {
            Some((n, s)) if n.chars().all(|c| c.is_ascii_digit()) => s,
            _ => continue,
        };
        let sym = sym.trim_start_matches('<');
        if sym.contains("install_panic_hook") {
            continue;
        }
        if sym.starts_with("trusttunnel::") {
            let s = sym.split("::h").next().unwrap_or(sym);
            let s = s.split(" as ").next().unwrap_or(s);
            return ("endpoint".into(), s.to_string());
        }
        if sym.starts_with("ttsim::") {
            return ("harness".into(), String::new());
        }
    }
    ("unknown".into(), String::new())
}

static PANICS: Mutex<Vec<PanicRec>> = Mutex::new(Vec::new());
static QUIET_PANICS: AtomicBool = AtomicBool::new(true);

pub fn install_panic_hook() {
    std::panic::set_hook(Box::new(|info| {
        let location = info
            .location()
            .map(|l| format!("{}:{}", l.file(), l.line()))
            .unwrap_or_else(|| "?".into());
        let message = if let Some(s) = info.payload().downcast_ref::<&str>() {
            s.to_string()
        } else if let Some(s) = info.payload().downcast_ref::<String>() {
            s.clone()
        } else {
            "?".into()
        };
        if !QUIET_PANICS.load(Ordering::Relaxed) {
            eprintln!("panic at {}: {}", location, message);
        }
        if std::env::var_os("VERIF_PANIC_SITES").is_some() {
            // for the parent: survives an abort of this process
            eprintln!("PANIC-SITE {}", location);
        }
        let bt = std::backtrace::Backtrace::force_capture().to_string();
        let (owner, site) = classify_backtrace(&bt);
        if !QUIET_PANICS.load(Ordering::Relaxed) {
            eprintln!("  owner={} site={}", owner, site);
            for l in bt.lines().filter(|l| l.contains("::")).take(40) {
                eprintln!("  {}", l.trim());
            }
        }
        if let Ok(mut g) = PANICS.lock() {
            g.push(PanicRec {
                location,
                message,
                owner,
                site,
            });
        }
    }));
}

pub fn set_quiet_panics(q: bool) {
    QUIET_PANICS.store(q, Ordering::Relaxed);
}

pub fn take_panics() -> Vec<PanicRec> {
    std::mem::take(&mut *PANICS.lock().unwrap())
}

// ---------------------------------------------------------------------------------------
// log capture
// ---------------------------------------------------------------------------------------

#[derive(Clone, Debug)]
pub struct LogRec {
    pub level: log::Level,
    pub file: String,
    pub line: u32,
    pub text: String,
}

struct CaptureLogger;

static LOGS: Mutex<Vec<LogRec>> = Mutex::new(Vec::new());
static LOG_ECHO: AtomicBool = AtomicBool::new(false);
static LOG_CAPTURE: AtomicBool = AtomicBool::new(false);

impl log::Log for CaptureLogger {
    fn enabled(&self, _: &log::Metadata) -> bool {
        true
    }
    fn log(&self, r: &log::Record) {
        let text = format!("{}", r.args());
        if LOG_ECHO.load(Ordering::Relaxed) {
            eprintln!(
                "[{:>10}us] {} {}:{} {}",
                world::now_us(),
                r.level(),
                r.file().unwrap_or("?"),
                r.line().unwrap_or(0),
                text
            );
        }
        if LOG_CAPTURE.load(Ordering::Relaxed) {
            LOGS.lock().unwrap().push(LogRec {
                level: r.level(),
                file: r.file().unwrap_or("?").to_string(),
                line: r.line().unwrap_or(0),
                text,
            });
        }
    }
    fn flush(&self) {}
}

pub fn install_logger() {
    let _ = log::set_logger(&CaptureLogger);
    log::set_max_level(log::LevelFilter::Off);
}

/// capture: keep records for the oracle; echo: print them (debugging a replay)
pub fn set_logging(capture: bool, echo: bool) {
    LOG_CAPTURE.store(capture, Ordering::Relaxed);
    LOG_ECHO.store(echo, Ordering::Relaxed);
    log::set_max_level(if capture || echo {
        log::LevelFilter::Trace
    } else {
        log::LevelFilter::Off
    });
}

pub fn take_logs() -> Vec<LogRec> {
    std::mem::take(&mut *LOGS.lock().unwrap())
}

// ---------------------------------------------------------------------------------------
// canaries: secrets planted by the scenarios, searched for in every captured log record
// ---------------------------------------------------------------------------------------

static CANARIES: Mutex<Vec<(String, String)>> = Mutex::new(Vec::new());

/// Register a secret of class `class` (only distinctive values are worth searching for)
pub fn canary(class: &str, value: &str) {
    if value.len() >= 8 {
        let mut c = CANARIES.lock().unwrap();
        if !c.iter().any(|(_, v)| v == value) {
            c.push((class.to_string(), value.to_string()));
        }
    }
}

fn scan_logs(logs: &[LogRec], out: &mut Outcome) {
    use base64::Engine;
    let canaries = CANARIES.lock().unwrap().clone();
    if canaries.is_empty() || logs.is_empty() {
        return;
    }
    let b64 = base64::engine::general_purpose::STANDARD;
    let mut forms: Vec<(String, String, String)> = Vec::new();
    for (class, v) in &canaries {
        forms.push((class.clone(), "verbatim".into(), v.clone()));
        if let Ok(d) = b64.decode(v.as_bytes()) {
            if let Ok(t) = String::from_utf8(d) {
                if t.len() >= 8 {
                    forms.push((class.clone(), "base64-decoded".into(), t));
                }
            }
        }
        let hex: String = v.bytes().map(|b| format!("{:02x}", b)).collect();
        forms.push((class.clone(), "hex".into(), hex));
    }
    for r in logs {
        for (class, form, needle) in &forms {
            if r.text.contains(needle.as_str()) {
                // the harness's own TLS and HTTP/2 clients log through the same facade: what a
                // client-side module says about the name it connects to is not the endpoint's
                if r.file.contains("/src/client/") || r.file.contains("/verif/") {
                    continue;
                }
                let file = r.file.rsplit("/repo/").next().unwrap_or(&r.file);
                // third-party crates: crate-version/path, without the registry directory
                let file = match file.rsplit_once("registry/src/") {
                    Some((_, rest)) => rest.split_once('/').map(|x| x.1).unwrap_or(rest),
                    None => file,
                };
                out.violate(
                    "C20",
                    format!("leak:{}:{}@{}:{}", class, form, file, r.line),
                    format!(
                        "{} record at {}:{} contains a {} ({}): {}",
                        r.level,
                        file,
                        r.line,
                        class,
                        form,
                        r.text.chars().take(300).collect::<String>()
                    ),
                );
            }
        }
    }
    *out.counters.entry("probe:log_records_scanned".into()).or_insert(0) += logs.len() as u64;
    *out.counters.entry("probe:canaries_planted".into()).or_insert(0) += canaries.len() as u64;
}

// ---------------------------------------------------------------------------------------
// progress (for the wall-clock watchdog)
// ---------------------------------------------------------------------------------------

pub static PROGRESS: AtomicU64 = AtomicU64::new(0);
pub static CURRENT_INDEX: AtomicU64 = AtomicU64::new(u64::MAX);

// ---------------------------------------------------------------------------------------
// outcome
// ---------------------------------------------------------------------------------------

#[derive(Clone, Debug, Serialize, Deserialize, PartialEq)]
pub struct Violation {
    pub property: String,
    /// oracle clause + narrowest stable discriminator
    pub key: String,
    pub detail: String,
}

#[derive(Clone, Debug, Default, Serialize, Deserialize)]
pub struct Outcome {
    pub violations: Vec<Violation>,
    pub trace_hash: u64,
    pub events: u64,
    pub vtime_us: u64,
    pub counters: BTreeMap<String, u64>,
    /// non-trivial by the scenario's own rule
    pub nontrivial: bool,
    /// coverage cells hit (decision tables, probes)
    pub cells: Vec<String>,
    /// the run hit the virtual-time cap before the scenario finished
    pub inconclusive: bool,
    pub heap_peak_delta: u64,
}

impl Outcome {
    pub fn violate(&mut self, property: &str, key: impl Into<String>, detail: impl Into<String>) {
        let v = Violation {
            property: property.to_string(),
            key: key.into(),
            detail: detail.into(),
        };
        if !self.violations.iter().any(|x| x.key == v.key && x.property == v.property) {
            self.violations.push(v);
        }
    }
    pub fn cell(&mut self, c: impl Into<String>) {
        let c = c.into();
        if !self.cells.contains(&c) {
            self.cells.push(c);
        }
    }
    pub fn probe(&mut self, name: &str) {
        *self.counters.entry(format!("probe:{}", name)).or_insert(0) += 1;
    }
}

pub struct SimReport {
    pub trace: Vec<world::Event>,
    pub counters: BTreeMap<&'static str, u64>,
    pub vtime_us: u64,
    pub timed_out: bool,
    pub panics: Vec<PanicRec>,
    pub logs: Vec<LogRec>,
    pub heap_peak_delta: u64,
    /// the scenario future itself panicked
    pub main_panicked: bool,
}

/// One run on a thread of its own: thread-local state of the standard library (the keys of
/// `RandomState`, drawn once per thread - see detrand.c) then starts from the same point for
/// every run, whatever ran before it in this process
pub fn execute_isolated(scn: &dyn crate::scenario::Scenario, plan: &serde_json::Value) -> Outcome {
    std::thread::scope(|s| {
        std::thread::Builder::new()
            .name("run".into())
            .stack_size(32 << 20)
            .spawn_scoped(s, || scn.execute(plan))
            .expect("thread for a run")
            .join()
            .unwrap_or_else(|_| {
                let mut o = Outcome::default();
                o.violate("HARNESS", "run-thread-panicked", "the thread executing the run panicked outside the simulation".to_string());
                o
            })
    })
}

/// Execute `make()`'s future on a fresh paused current-thread runtime with a fresh world.
/// `vcap` bounds virtual time. Returns what the future returned (None on cap or panic).
pub fn run<T, F, Fut>(seed: u64, vcap: Duration, make: F) -> (Option<T>, SimReport)
where
    F: FnOnce() -> Fut + std::panic::UnwindSafe,
    Fut: Future<Output = T>,
{
    PROGRESS.fetch_add(1, Ordering::Relaxed);
    let _ = take_panics();
    let _ = take_logs();
    CANARIES.lock().unwrap().clear();
    let base = heap_reset_peak();
    let mut seed_bytes = Vec::new();
    seed_bytes.extend_from_slice(&seed.to_le_bytes());
    let result = std::panic::catch_unwind(move || {
        let rt = tokio::runtime::Builder::new_current_thread()
            .enable_time()
            .start_paused(true)
            .rng_seed(tokio::runtime::RngSeed::from_bytes(&seed_bytes))
            .build()
            .expect("runtime");
        let r = rt.block_on(async move {
            world::install(seed);
            let r = tokio::time::timeout(vcap, make()).await;
            let t = world::now_us();
            (r.ok(), t)
        });
        // dropping the runtime drops every task, whose destructors still talk to the world;
        // the order in which tokio drops them depends on process-global task ids, so what
        // happens from here on is not part of the trace
        world::with(|w| w.trace_enabled = false);
        drop(rt);
        r
    });
    let peak = heap_peak();
    let inner = world::uninstall();
    let (trace, counters, overflow) = match inner {
        Some(i) => (i.trace, i.counters, i.trace_overflow),
        None => (Vec::new(), BTreeMap::new(), false),
    };
    let panics = take_panics();
    let logs = take_logs();
    let (out, vtime_us, timed_out, main_panicked) = match result {
        // a run whose trace overflowed is not judged (its hash would not identify it)
        Ok((Some(v), t)) => (Some(v), t, overflow, false),
        Ok((None, t)) => (None, t, true, false),
        Err(_) => (None, 0, false, true),
    };
    (
        out,
        SimReport {
            trace,
            counters,
            vtime_us,
            timed_out,
            panics,
            logs,
            heap_peak_delta: peak.saturating_sub(base) as u64,
            main_panicked,
        },
    )
}

/// Fold the generic monitors into an outcome: trace hash, counters, panics located in /repo
pub fn finish(mut out: Outcome, rep: &SimReport) -> Outcome {
    out.trace_hash = world::trace_hash(&rep.trace);
    out.events = rep.trace.len() as u64;
    out.vtime_us = rep.vtime_us;
    out.heap_peak_delta = rep.heap_peak_delta;
    for (k, v) in &rep.counters {
        *out.counters.entry((*k).to_string()).or_insert(0) += *v;
    }
    if rep.timed_out {
        out.inconclusive = true;
    }
    scan_logs(&rep.logs, &mut out);
    for p in &rep.panics {
        if p.location.contains("/repo/") {
            let loc = p.location.rsplit("/repo/").next().unwrap_or(&p.location).to_string();
            out.violate(
                "C09",
                format!("panic@{}", loc),
                format!("panic in endpoint code at {}: {}", loc, p.message),
            );
        } else if p.location.contains("/verif/") || p.owner == "harness" {
            out.violate(
                "HARNESS",
                format!("harness-panic@{}", p.location),
                p.message.clone(),
            );
        } else if p.owner == "endpoint" {
            let loc = p
                .location
                .rsplit("registry/src/")
                .next()
                .unwrap_or(&p.location)
                .to_string();
            out.violate(
                "C09",
                format!("panic-under@{}", p.site),
                format!(
                    "panic at {} called from endpoint function {}: {}",
                    loc, p.site, p.message
                ),
            );
        } else {
            out.violate(
                "HARNESS",
                format!("unattributed-panic@{}", p.location),
                p.message.clone(),
            );
        }
    }
    // fold violations into the trace hash so that a replay must reproduce them too
    let mut h = out.trace_hash;
    for v in &out.violations {
        h = crate::prng::fnv64_from(h, v.key.as_bytes());
    }
    out.trace_hash = h;
    out
}
