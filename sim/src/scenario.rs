//! Scenario interface and plan helpers shared by all scenarios.

use crate::prng::Rng;
use crate::sim::Outcome;
use crate::world::Cut;
use serde::{Deserialize, Serialize};
use serde_json::Value;
use std::io::ErrorKind;

#[derive(Clone, Copy, Debug, PartialEq, Eq)]
pub enum Tier {
    Quick,
    Thorough,
}

pub trait Scenario: Sync {
    fn name(&self) -> &'static str;
    /// Expand run `index` of master seed `seed` into an explicit plan (a JSON document)
    fn generate(&self, seed: u64, index: u64, tier: Tier) -> Value;
    /// Execute a plan. Pure function of the plan.
    fn execute(&self, plan: &Value) -> Outcome;
    /// Number of plans of the systematic (enumerated, not sampled) sub-space; indices below
    /// this number address it, indices above are random plans
    fn systematic(&self, _tier: Tier) -> u64 {
        0
    }
    /// Default number of plans per tier
    fn budget(&self, tier: Tier) -> u64;
}

/// serde-friendly `Cut`
#[derive(Clone, Debug, Serialize, Deserialize, PartialEq, Default)]
pub struct CutP {
    /// 0 = all, 1 = fixed(a), 2 = random(a..=b)
    pub kind: u8,
    pub a: usize,
    pub b: usize,
}

impl CutP {
    pub fn all() -> Self {
        Self { kind: 0, a: 0, b: 0 }
    }
    pub fn fixed(a: usize) -> Self {
        Self { kind: 1, a, b: a }
    }
    pub fn random(a: usize, b: usize) -> Self {
        Self { kind: 2, a, b }
    }
    pub fn to_cut(&self) -> Cut {
        match self.kind {
            1 => Cut::Fixed(self.a.max(1)),
            2 => Cut::Random(self.a.max(1), self.b.max(self.a).max(1)),
            _ => Cut::All,
        }
    }
    /// A swarm-style draw: mostly unconstrained, sometimes tiny, sometimes random
    pub fn draw(rng: &mut Rng, max: usize) -> Self {
        match rng.below(10) {
            0..=3 => Self::all(),
            4 => Self::fixed(1),
            5 => Self::fixed(rng.size(2, max.max(2) as u64) as usize),
            _ => {
                let a = rng.size(1, max.max(1) as u64) as usize;
                let b = rng.size(a as u64, max.max(a) as u64) as usize;
                Self::random(a, b)
            }
        }
    }
}

pub fn error_kind(code: u8) -> ErrorKind {
    match code % 4 {
        0 => ErrorKind::ConnectionReset,
        1 => ErrorKind::BrokenPipe,
        2 => ErrorKind::TimedOut,
        _ => ErrorKind::ConnectionAborted,
    }
}

pub fn to_plan<T: Serialize>(t: &T) -> Value {
    serde_json::to_value(t).expect("plan serialises")
}

pub fn from_plan<T: for<'de> Deserialize<'de>>(v: &Value) -> Result<T, String> {
    serde_json::from_value(v.clone()).map_err(|e| format!("bad plan: {}", e))
}

pub fn harness_error(msg: impl Into<String>) -> Outcome {
    let mut o = Outcome::default();
    o.violate("HARNESS", "harness-error", msg);
    o
}
