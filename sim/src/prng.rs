//! SplitMix64 + xoshiro256**. Hand-written so that the stream of choices is fixed by this
//! repository and not by a crate version.

#[derive(Clone, Debug)]
pub struct Rng {
    s: [u64; 4],
}

pub fn splitmix64(x: &mut u64) -> u64 {
    *x = x.wrapping_add(0x9E37_79B9_7F4A_7C15);
    let mut z = *x;
    z = (z ^ (z >> 30)).wrapping_mul(0xBF58_476D_1CE4_E5B9);
    z = (z ^ (z >> 27)).wrapping_mul(0x94D0_49BB_1331_11EB);
    z ^ (z >> 31)
}

pub fn fnv64(data: &[u8]) -> u64 {
    fnv64_from(0xcbf2_9ce4_8422_2325, data)
}

pub fn fnv64_from(mut h: u64, data: &[u8]) -> u64 {
    for b in data {
        h ^= *b as u64;
        h = h.wrapping_mul(0x0000_0100_0000_01B3);
    }
    h
}

impl Rng {
    pub fn new(seed: u64) -> Self {
        let mut x = seed;
        let s = [
            splitmix64(&mut x),
            splitmix64(&mut x),
            splitmix64(&mut x),
            splitmix64(&mut x),
        ];
        Self { s }
    }

    /// An independent sub-stream named by `label`; does not advance `self`
    pub fn fork(&self, label: &str) -> Rng {
        let mut h = fnv64(label.as_bytes());
        for w in self.s {
            h = fnv64_from(h, &w.to_le_bytes());
        }
        Rng::new(h)
    }

    pub fn next_u64(&mut self) -> u64 {
        let r = self.s[1].wrapping_mul(5).rotate_left(7).wrapping_mul(9);
        let t = self.s[1] << 17;
        self.s[2] ^= self.s[0];
        self.s[3] ^= self.s[1];
        self.s[1] ^= self.s[2];
        self.s[0] ^= self.s[3];
        self.s[2] ^= t;
        self.s[3] = self.s[3].rotate_left(45);
        r
    }

    /// Uniform in `0..n` (`n > 0`)
    pub fn below(&mut self, n: u64) -> u64 {
        debug_assert!(n > 0);
        // multiply-shift; bias is irrelevant here
        ((self.next_u64() as u128 * n as u128) >> 64) as u64
    }

    pub fn usize_below(&mut self, n: usize) -> usize {
        self.below(n as u64) as usize
    }

    /// Uniform in `lo..=hi`
    pub fn range(&mut self, lo: u64, hi: u64) -> u64 {
        lo + self.below(hi - lo + 1)
    }

    pub fn chance(&mut self, num: u64, den: u64) -> bool {
        self.below(den) < num
    }

    pub fn pick<'a, T>(&mut self, xs: &'a [T]) -> &'a T {
        &xs[self.usize_below(xs.len())]
    }

    pub fn bytes(&mut self, n: usize) -> Vec<u8> {
        let mut v = Vec::with_capacity(n);
        while v.len() < n {
            let w = self.next_u64().to_le_bytes();
            let k = (n - v.len()).min(8);
            v.extend_from_slice(&w[..k]);
        }
        v
    }

    /// Log-uniform-ish size in `lo..=hi`: small values are as likely as large ones
    pub fn size(&mut self, lo: u64, hi: u64) -> u64 {
        if hi <= lo {
            return lo;
        }
        let bits_lo = 64 - lo.max(1).leading_zeros() as u64;
        let bits_hi = 64 - hi.leading_zeros() as u64;
        let b = self.range(bits_lo, bits_hi);
        let top = if b >= 64 { u64::MAX } else { (1u64 << b) - 1 };
        let bot = if b <= 1 { 0 } else { 1u64 << (b - 1) };
        self.range(bot.max(lo).min(hi), top.min(hi).max(lo))
    }
}
