//! Which scenarios decide which property.

use crate::driver::CheckDef;

const KERNEL: &str = "TCP/UDP/raw-socket/resolver semantics are the world's model of Linux (partial writes, WouldBlock, FIN/RST, ECONNREFUSED...)";
const NO_H3: &str = "HTTP/3 / QUIC is not simulated (quiche reads the real clock and entropy): that sub-clause is not decided";

pub fn all() -> Vec<CheckDef> {
    vec![CheckDef {
        property: "C02",
        scenarios: vec![("relay", 100)],
        level: "exploration",
        rule: "plans drawn from the master seed (swarm: protocol, windows, buffer sizes, segmentations, gaps, stalls, idle-timer restarts, one injected failure in a third of the runs); a run is non-trivial when a tunnel was established and either both directions completed with data or an injected fault fired inside it; distinct = distinct hash of the world event trace",
        assumptions: vec![KERNEL, NO_H3, "cooperative peers: each peer eventually reads what it is offered; HTTP/1.1 peers end their direction only after receiving everything (HTTP/1.1 CONNECT cannot express half-close)"],
        real: vec!["Tunnel", "HttpDownstream", "Http1Codec", "Http2Codec (h2 0.3 server)", "TcpForwarder", "DuplexPipe/SimplexPipe", "RegistryBasedAuthenticator", "Metrics"],
        simulated: vec!["client transport", "outbound TCP sockets", "clock (tokio paused)", "task scheduling (current-thread, seeded select!)", "HTTP/2 client = h2 0.3 client driven by the plan"],
        not_run: vec!["TLS", "QUIC/HTTP3"],
    },
    CheckDef {
        property: "C01",
        scenarios: vec![("auth", 100)],
        level: "exploration",
        rule: "sessions of 1-6 requests (HTTP/2: concurrent streams on one session; HTTP/1.1: one request per connection) drawn from the master seed over 17 Proxy-Authorization classes x 7 request kinds x 3 authenticator configurations x 3 SNI-credential states; each request targets a destination no other request uses, so resolver queries and connects are attributable; non-trivial = at least one request whose reference verdict is 'unauthorised' (or an authorised one answered) was actually sent and judged; distinct = distinct world event trace",
        assumptions: vec![KERNEL, NO_H3, "the TLS layer is skipped: SNI credentials are handed to the session door as TlsDemux would extract them (the extraction itself is C05's subject)", "EITHER where RFC 7235/7617 and the statement leave it open: lower-case scheme, unpadded base64, trailing space on HTTP/2, duplicated headers, bad header on a connection with accepted SNI credentials"],
        real: vec!["Tunnel::listen_inner (the five-way match)", "http_codec::PendingRequest::auth_info", "HttpDownstream", "Http1Codec", "Http2Codec", "RegistryBasedAuthenticator", "Core::on_tunnel_request (SNI authentication)", "TcpForwarder"],
        simulated: vec!["client transport", "resolver", "outbound TCP", "clock"],
        not_run: vec!["TLS", "QUIC/HTTP3"],
    },
    CheckDef {
        property: "C10",
        scenarios: vec![("responses", 100)],
        level: "exploration",
        rule: "requests over methods x authorities (reserved names, look-alikes, literals, names with/without port) x every outcome of the outbound attempt (ok, refused, net/host unreachable, timed out, never, EMFILE, other, resolver error/empty/never, policy refusal) x both protocols; reference table from the statement decides status and X-Warning; non-trivial = an authorised request was answered and judged against the table; distinct = distinct world event trace",
        assumptions: vec![KERNEL, NO_H3, "durations within 2 ms of the establishment time-out are undecided (tokio timer wheel granularity)", "_icmp without ICMP configured: either answer"],
        real: vec!["HttpDownstream::PendingRequest::promote_to_next_state", "tunnel_error_to_status_code / tunnel_error_to_warn_header", "Tunnel::on_tcp_connect_request", "TcpForwarder::connect / io_to_connection_error", "Http1Codec", "Http2Codec"],
        simulated: vec!["client transport", "resolver", "outbound TCP (every connect outcome)", "clock"],
        not_run: vec!["TLS", "QUIC/HTTP3"],
    },
    CheckDef {
        property: "C03",
        scenarios: vec![("egress", 100)],
        level: "exploration",
        rule: "enumerated part: every boundary (first-1, first, middle, last, last+1) of every IANA special-purpose block as IPv4 literal, IPv4-mapped IPv6 literal and host name, both values of the policy flag, and the first IPv6 hextet swept (every 16th value with all low nibbles in quick, all 65536 in thorough); sampled part: sessions of up to 12 requests with literals and names resolving to 1-3 addresses of mixed classes, resolver rebinding, both flags; oracle = independent classifier (must-refuse / must-allow / either) + connect census; non-trivial = an authorised request reached the policy decision; distinct = distinct world event trace",
        assumptions: vec![KERNEL, NO_H3, "the exhaustive 2^32 sweep named in the quantifier is enumeration, not simulation: block boundaries are enumerated, interiors sampled", "EITHER: multicast, 6to4, Teredo/2001::/23, NAT64, benchmarking, 192.0.0.0/24, 192.88.99.0/24, addresses outside 2000::/3, IPv6 with ipv6_available=false, IPv4-mapped forms of global addresses"],
        real: vec!["net_utils::is_global_ip*", "TcpForwarder::connect", "http_downstream::TcpConnection::destination", "Tunnel", "codecs"],
        simulated: vec!["resolver (planned answers, rebinding, getaddrinfo numeric forms)", "outbound TCP", "client transport", "clock"],
        not_run: vec!["TLS", "QUIC/HTTP3"],
    },
    CheckDef {
        property: "C08",
        scenarios: vec![("h1", 100)],
        level: "fault_enumeration",
        rule: "enumerated part: every 1-cut of head+payload of six canonical requests (CONNECT with and without payload and download, _check, plain POST with body, lower-case names, Host last), each with and without an arrival gap; sampled part: heads with 0-32 headers and up to exactly 1024 bytes, near-misses (33+ headers, 1025+ bytes, bad version, NUL, missing colon, bad method), 0-3 cuts, byte-at-a-time, random pieces, gaps from 0 to beyond the listener time-out, endpoint read sizes 1..2048; non-trivial = a valid request was judged against the reference or an over-limit one was sent; distinct = distinct world event trace. A run that stops making progress (spin) is caught by the worker's wall-clock watchdog and reported as a violation with its plan.",
        assumptions: vec![KERNEL, "client_listener_timeout also bounds the life of an HTTP/1.1 session; plans whose gaps add up to it are undecided", "malformed heads other than over-limit ones only have to cause no egress"],
        real: vec!["Http1Codec (listen, decode_request, StreamSource/StreamSink)", "HttpDownstream", "Tunnel", "TcpForwarder", "http_forwarded_stream (plain POST)", "DuplexPipe"],
        simulated: vec!["client transport (segmentation, arrival times, read sizes)", "resolver", "destination", "clock"],
        not_run: vec!["TLS", "metrics listener's use of Http1Codec (see C16)"],
    },
    CheckDef {
        property: "C14",
        scenarios: vec![("timeouts", 100)],
        level: "exploration",
        rule: "idle: tunnels (both protocols) with 0-25 planned transfers at 1-103 % of T apart (one-sided, alternating, exactly at the deadline +-1 ms), optional half-close of either side (HTTP/2) and back-pressure stalls, then silence; establishment: resolver + connect taking 30-150 % of the limit, or never completing; oracle on the virtual clock: never closed while the longest silence stays below T, closed within [last activity + T, last activity + 2T] after, 502/302 at the limit, pending connect dropped, sockets released; non-trivial = the tunnel was established (idle) or the request answered (establishment); distinct = distinct world event trace",
        assumptions: vec![KERNEL, NO_H3, "every simulated time-out carries a sub-millisecond fraction: tokio's paused clock lands exactly on deadlines whereas real timers fire late and the endpoint compares strictly (DESIGN.md 3.2)", "durations within 3 ms of a limit are undecided", "client_listener_timeout is a different timer (it ends an HTTP/1.1 session after ten minutes whatever its activity) and is set far away", "the TLS handshake time-out is decided by the `handshake` scenario"],
        real: vec!["DuplexPipe/SimplexPipe (per-direction timeout, expiry test)", "Tunnel::on_tcp_connect_request (establishment timeout)", "TcpForwarder", "codecs"],
        simulated: vec!["clock (tokio paused, auto-advance)", "client and destination", "resolver", "outbound TCP"],
        not_run: vec!["QUIC/HTTP3"],
    },
    CheckDef {
        property: "C17",
        scenarios: vec![("forward", 100)],
        level: "exploration",
        rule: "one non-CONNECT request per run over methods (GET/HEAD/POST/PUT/DELETE/OPTIONS), targets, request bodies (none, Content-Length, chunked / unsized HTTP/2 DATA), origin responses (0-2 interim 1xx, nine statuses, bodiless / Content-Length / chunked with extensions / close-delimited, hop-by-hop headers), origin byte segmentation (whole, 1-2 cuts, byte-at-a-time, random), endpoint read sizes, client windows 1..65535 and paced readers; the origin is a strict HTTP/1.1 parser, the client de-chunks with a reference decoder; non-trivial = the origin was contacted; distinct = distinct world event trace",
        assumptions: vec![KERNEL, NO_H3, "HTTP/2 clients are not required to see interim responses", "when the origin neither marks the end of the body nor closes, no clean end is required", "trailers are not generated"],
        real: vec!["http_forwarded_stream (serialize_request, ForwardedStreamSource/Sink state machines)", "HttpDownstream", "Http1Codec", "Http2Codec", "DuplexPipe", "TcpForwarder"],
        simulated: vec!["origin server (strict parser, planned responses)", "client", "resolver", "clock"],
        not_run: vec!["TLS", "QUIC/HTTP3"],
    },
    CheckDef {
        property: "C18",
        scenarios: vec![("services", 100)],
        level: "exploration",
        rule: "one service request per run through the real accept loop + TLS listener + SNI demultiplexer (rustls client as peer): ping host, ping markers, speedtest downloads for N in {0,1,2,3,99,100,101,10^9,'01','+1','-1','','1.5',2^32+1}, uploads with Content-Length absent/0/1/valid/120 MiB/120 MiB+1/non-numeric/negative, other paths and methods, reverse proxy by SNI host and by path mask with loopback and non-loopback origins under both egress policies; listener protocol subsets {h1}, {h2}, {h1,h2}; client ALPN lists; with and without credentials; non-trivial = the TLS handshake completed and a request was judged; distinct = distinct world event trace (semantic events only on TLS connections). N = 99/100 only in a few thorough runs.",
        assumptions: vec![KERNEL, NO_H3, "TLS ciphertext is not part of the trace (rustls draws real entropy): replays reproduce the semantic trace", "HTTP/2 itself rejects a malformed content-length (stream error): accepted as a refusal", "unusual spellings of a valid N ('01', '+1'): refused or served exactly"],
        real: vec!["Core::listen / listen_tcp / on_new_tls_connection", "TlsListener + rustls server", "TlsDemux", "HttpDemux", "http_ping_handler", "http_speedtest_handler", "reverse_proxy", "Http1Codec", "Http2Codec", "TcpForwarder"],
        simulated: vec!["listener socket", "client (rustls + h2 clients)", "reverse-proxy origin", "clock"],
        not_run: vec!["QUIC/HTTP3"],
    }]
}
