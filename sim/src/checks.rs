//! Which scenarios decide which property.

use crate::driver::CheckDef;

const KERNEL: &str = "TCP/UDP/raw-socket/resolver semantics are the world's model of Linux (partial writes, WouldBlock, FIN/RST, ECONNREFUSED...)";
const NO_H3: &str = "HTTP/3 / QUIC is not simulated (quiche reads the real clock and entropy): that sub-clause is not decided";

pub fn all() -> Vec<CheckDef> {
    vec![CheckDef {
        property: "C02",
        scenarios: vec![("relay", 100)],
        level: "exploration",
        rule: "plans drawn from the master seed (swarm: protocol, windows, buffer sizes, segmentations, gaps, stalls, idle-timer restarts, one injected failure in a third of the runs); a run is non-trivial when a tunnel was established and either both directions completed with data or an injected fault fired inside it; distinct = distinct hash of the world event trace",
        assumptions: vec![KERNEL, NO_H3, "cooperative peers: each peer eventually reads what it is offered; HTTP/1.1 peers end their direction only after receiving everything (HTTP/1.1 CONNECT cannot express half-close)"],
        real: vec!["Tunnel", "HttpDownstream", "Http1Codec", "Http2Codec (h2 0.3 server)", "TcpForwarder", "DuplexPipe/SimplexPipe", "RegistryBasedAuthenticator", "Metrics"],
        simulated: vec!["client transport", "outbound TCP sockets", "clock (tokio paused)", "task scheduling (current-thread, seeded select!)", "HTTP/2 client = h2 0.3 client driven by the plan"],
        not_run: vec!["TLS", "QUIC/HTTP3"],
    }]
}
