//! C09: hostile bytes on every surface an untrusted peer can reach, delivered under planned
//! segmentations while a bystander uses the same endpoint. A valid transcript for the surface
//! is mutated structurally (bit flips, truncation, length fields set to their extremes,
//! insertions, repetitions) or replaced by noise. Oracle: no panic in endpoint code (the panic
//! hook attributes every panic by its backtrace), no run that stops making progress (the
//! worker's wall-clock watchdog), heap growth within a bound, `Core::listen()` still running,
//! and the bystander served before and after the attack.

use crate::actors::*;
use crate::endpoint::{self, EpConfig, FRACTION_US};
use crate::prng::Rng;
use crate::scenario::*;
use crate::sim::{self, Outcome};
use crate::world::{self, ConnectOutcome, DnsOutcome, DnsPlan, EpFaults, HostPlan, PeerConn, PeerRead};
use bytes::Bytes;
use serde::{Deserialize, Serialize};
use serde_json::Value;
use std::net::SocketAddr;
use std::time::Duration;

pub struct Byzantine;

const LISTEN: &str = "198.51.100.1:443";
const METRICS: &str = "198.51.100.1:1987";
const SOCKS: &str = "192.0.2.200:1080";
const ECHO_HOST: &str = "93.184.216.90:443";
const ORIGIN: &str = "93.184.216.91:80";
const VICTIM_HOST: &str = "93.184.216.92:443";

pub const SURFACES: &[&str] = &[
    "h1-session", "h2-session", "udp-mux", "icmp-mux", "origin-response", "socks-server", "metrics-listener", "tls-first-bytes", "raw-icmp", "files",
];

#[derive(Clone, Debug, Serialize, Deserialize)]
pub enum Mutation {
    Xor { off: usize, mask: u8 },
    Set { off: usize, val: u8 },
    Truncate { len: usize },
    Insert { off: usize, n: usize, val: Option<u8> },
    Repeat { off: usize, len: usize, times: usize },
    /// 1, 2 or 4 bytes at `off` set to 0xff / 0x7f.. / 0x00
    Extreme { off: usize, width: u8, how: u8 },
    Noise { n: usize },
}

#[derive(Clone, Debug, Serialize, Deserialize)]
pub struct BPlan {
    pub seed: u64,
    pub surface: usize,
    pub base: u8,
    pub mutations: Vec<Mutation>,
    /// 0 = whole, 1 = byte at a time (first 2 KiB), 2 = random pieces, 3 = cuts
    pub delivery: u8,
    pub cuts: Vec<usize>,
    pub gap_us: u64,
    /// 0 = stay, 1 = FIN, 2 = RST after the last byte
    pub ending: u8,
    pub ep_read: CutP,
}

impl Scenario for Byzantine {
    fn name(&self) -> &'static str {
        "byzantine"
    }

    fn budget(&self, tier: Tier) -> u64 {
        match tier {
            Tier::Quick => 150_000,
            Tier::Thorough => 8_000_000,
        }
    }

    fn generate(&self, seed: u64, index: u64, _tier: Tier) -> Value {
        let mut rng = Rng::new(seed).fork(&format!("byz{}", index));
        let surface = rng.usize_below(SURFACES.len());
        let n_mut = match rng.below(6) {
            0 => 0,
            1 | 2 => 1,
            3 => 2,
            _ => 1 + rng.usize_below(5),
        };
        let span = 400usize;
        let mutations = (0..n_mut)
            .map(|_| match rng.below(12) {
                0 | 1 => Mutation::Xor { off: rng.usize_below(span), mask: 1 << rng.below(8) },
                2 => Mutation::Set { off: rng.usize_below(span), val: *rng.pick(&[0u8, 0xff, 0x7f, 0x80, b'\r', b'\n', b' ', b':']) },
                3 => Mutation::Truncate { len: rng.usize_below(span) },
                4 => Mutation::Insert { off: rng.usize_below(span), n: rng.size(1, 3_000) as usize, val: if rng.chance(1, 2) { Some(*rng.pick(&[0u8, 0xff, b'A', b'\n'])) } else { None } },
                5 => Mutation::Repeat { off: rng.usize_below(span), len: 1 + rng.usize_below(64), times: rng.size(2, 800) as usize },
                6 | 7 | 8 => Mutation::Extreme { off: rng.usize_below(span), width: *rng.pick(&[1u8, 2, 4]), how: rng.below(3) as u8 },
                9 => Mutation::Noise { n: rng.size(1, 4_000) as usize },
                _ => Mutation::Xor { off: rng.usize_below(40), mask: rng.below(256) as u8 },
            })
            .collect();
        let plan = BPlan {
            seed: rng.next_u64(),
            surface,
            base: rng.below(4) as u8,
            mutations,
            delivery: rng.below(4) as u8,
            cuts: (0..rng.usize_below(4)).map(|_| rng.size(1, 600) as usize).collect(),
            gap_us: if rng.chance(1, 2) { 0 } else { rng.size(1, 5_000) },
            ending: rng.below(3) as u8,
            ep_read: CutP::draw(&mut rng, 300),
        };
        to_plan(&plan)
    }

    fn execute(&self, plan: &Value) -> Outcome {
        let plan: BPlan = match from_plan(plan) {
            Ok(p) => p,
            Err(e) => return harness_error(e),
        };
        let p2 = plan.clone();
        let (obs, rep) = sim::run(plan.seed, Duration::from_secs(3600), move || run(p2));
        let mut out = Outcome::default();
        match obs {
            Some(obs) => judge(&plan, &obs, rep.heap_peak_delta, !rep.panics.is_empty(), &mut out),
            None => {
                if !rep.main_panicked {
                    out.inconclusive = true;
                }
            }
        }
        sim::finish(out, &rep)
    }
}

#[derive(Debug, Default, Clone)]
pub struct Obs {
    pub setup_error: Option<String>,
    pub input_len: usize,
    pub bystander_before: bool,
    pub bystander_after_same_tunnel: bool,
    pub bystander_after_new_tunnel: bool,
    pub listen_ended: bool,
    pub listen_result: Option<String>,
    /// files surface: Ok / Err text of the start-up path
    pub startup: Option<Result<(), String>>,
    pub delivered: usize,
}

fn mutate(wire: &mut Vec<u8>, m: &Mutation, rng: &mut Rng) {
    let len = wire.len().max(1);
    match m {
        Mutation::Xor { off, mask } => {
            let o = off % len;
            if let Some(b) = wire.get_mut(o) {
                *b ^= mask;
            }
        }
        Mutation::Set { off, val } => {
            let o = off % len;
            if let Some(b) = wire.get_mut(o) {
                *b = *val;
            }
        }
        Mutation::Truncate { len: l } => wire.truncate(l % (len + 1)),
        Mutation::Insert { off, n, val } => {
            let o = off % (wire.len() + 1);
            let ins: Vec<u8> = match val {
                Some(v) => vec![*v; *n],
                None => rng.bytes(*n),
            };
            wire.splice(o..o, ins);
        }
        Mutation::Repeat { off, len: l, times } => {
            if wire.is_empty() {
                return;
            }
            let o = off % wire.len();
            let e = (o + l).min(wire.len());
            let piece: Vec<u8> = wire[o..e].to_vec();
            let mut ins = Vec::new();
            for _ in 0..*times {
                ins.extend_from_slice(&piece);
                if ins.len() > 60_000 {
                    break;
                }
            }
            wire.splice(e..e, ins);
        }
        Mutation::Extreme { off, width, how } => {
            let o = off % len;
            for i in 0..*width as usize {
                if let Some(b) = wire.get_mut(o + i) {
                    *b = match how {
                        0 => 0xff,
                        1 => {
                            if i == 0 {
                                0x7f
                            } else {
                                0xff
                            }
                        }
                        _ => 0,
                    };
                }
            }
        }
        Mutation::Noise { n } => *wire = rng.bytes(*n),
    }
}

fn cuts_for(plan: &BPlan, len: usize) -> Vec<usize> {
    match plan.delivery {
        1 => (1..len.min(2048)).collect(),
        2 => {
            let mut r = Rng::new(plan.seed ^ 0x51);
            let mut v = Vec::new();
            let mut at = 0;
            while at < len {
                at += r.size(1, 900) as usize;
                v.push(at);
            }
            v
        }
        3 => plan.cuts.clone(),
        _ => vec![],
    }
}

async fn deliver(plan: &BPlan, conn: &PeerConn, wire: &[u8]) -> usize {
    let cuts = cuts_for(plan, wire.len());
    let gap = if plan.delivery == 1 { plan.gap_us.min(100) } else { plan.gap_us };
    let gaps: Vec<u64> = cuts.iter().map(|_| gap).collect();
    let ok = tokio::time::timeout(Duration::from_secs(20), write_pieces(conn, wire, &cuts, &gaps)).await;
    match plan.ending {
        1 => conn.shutdown_write(),
        2 => conn.reset(),
        _ => {}
    }
    if matches!(ok, Ok(Ok(()))) {
        wire.len()
    } else {
        0
    }
}

async fn drain(conn: PeerConn) {
    loop {
        match conn.read(64 * 1024).await {
            PeerRead::Data(_) => continue,
            _ => break,
        }
    }
}

fn auth() -> String {
    basic_auth("u0", "p0-secret-password")
}

/// An HTTP/1.1 session through the door; returns the client's end
fn h1_session(ep: &endpoint::Endpoint, client: &str, faults: EpFaults) -> PeerConn {
    let (stream, peer) = world::client_conn(client.parse().unwrap(), 1 << 20, 1 << 20, faults);
    let core = ep.core.clone();
    tokio::spawn(async move { core.verif_serve_session(false, stream, "vpn.example".into(), None).await });
    peer
}

async fn h1_connect(peer: &PeerConn, authority: &str) -> Option<u16> {
    let head = format!("CONNECT {} HTTP/1.1\r\nHost: {}\r\nProxy-Authorization: {}\r\n\r\n", authority, authority, auth());
    let _ = peer.write_all(head.as_bytes()).await;
    match tokio::time::timeout(Duration::from_secs(40), h1_read_head(peer)).await {
        Ok(H1ReadHead::Head(h, _)) => Some(h.status),
        _ => None,
    }
}

async fn echo_once(peer: &PeerConn, tag: u64) -> bool {
    let data = pattern(tag, 0, 200);
    if peer.write_all(&data).await.is_err() {
        return false;
    }
    let mut got = Vec::new();
    while got.len() < data.len() {
        match tokio::time::timeout(Duration::from_millis(200), peer.read(4096)).await {
            Ok(PeerRead::Data(d)) => got.extend_from_slice(&d),
            _ => return false,
        }
    }
    got == data
}

/// What an h2 client writes for a CONNECT with some payload (preface, SETTINGS, HEADERS, DATA)
async fn h2_transcript(kind: u8) -> Vec<u8> {
    let (a, mut b) = tokio::io::duplex(1 << 20);
    let sink = tokio::spawn(async move {
        use tokio::io::AsyncReadExt;
        let mut all = Vec::new();
        let mut buf = [0u8; 4096];
        loop {
            match tokio::time::timeout(Duration::from_millis(5), b.read(&mut buf)).await {
                Ok(Ok(n)) if n > 0 => all.extend_from_slice(&buf[..n]),
                _ => break,
            }
        }
        all
    });
    if let Ok(c) = h2_connect_io(a, H2Params::default()).await {
        let mut send = c.send;
        let target = match kind {
            0 => VICTIM_HOST.to_string(),
            1 => "_udp2".to_string(),
            2 => "_check".to_string(),
            _ => "_icmp".to_string(),
        };
        let req = http::Request::builder().method("CONNECT").uri(target).header("proxy-authorization", auth()).body(()).unwrap();
        if let Ok((_resp, mut tx)) = send.send_request(req, false) {
            let _ = tx.send_data(Bytes::from(pattern(9, 0, 300)), false);
        }
        sleep_us(2_000).await;
        c.driver.abort();
    }
    sink.await.unwrap_or_default()
}

async fn run(plan: BPlan) -> Obs {
    let mut obs = Obs::default();
    let surface = SURFACES[plan.surface % SURFACES.len()];
    let mut mrng = Rng::new(plan.seed ^ 0xb12);

    if surface == "files" {
        return run_files(&plan, &mut mrng);
    }

    let cfg = EpConfig {
        listen: LISTEN.parse().unwrap(),
        metrics: Some((METRICS.parse().unwrap(), 3_000_000 + FRACTION_US)),
        icmp: Some((2_000_000 + FRACTION_US, 64)),
        socks: if surface == "socks-server" { Some((SOCKS.parse().unwrap(), plan.base % 2 == 1)) } else { None },
        ..EpConfig::default()
    };
    let ep = match endpoint::build(&cfg, endpoint::registry(&cfg)) {
        Ok(e) => e,
        Err(e) => {
            obs.setup_error = Some(e);
            return obs;
        }
    };
    world::with(|w| {
        for h in [ECHO_HOST, VICTIM_HOST, ORIGIN, SOCKS] {
            w.hosts.insert(h.parse().unwrap(), HostPlan { outcome: ConnectOutcome::Ok, ..HostPlan::default() });
        }
        w.dns.insert(
            "origin.sim.test:80".into(),
            DnsPlan { outcomes: vec![DnsOutcome::Answer(vec![ORIGIN.parse().unwrap()])], delay: Duration::from_micros(100) },
        );
    });
    let listening = crate::patht::start(&ep, cfg.listen).await;
    for _ in 0..10 {
        tokio::task::yield_now().await;
    }

    // hosts: echo, except the origin / SOCKS server which play the attack
    let attack_bytes: std::sync::Arc<std::sync::Mutex<Option<Vec<u8>>>> = Default::default();
    let hosts = {
        let attack = attack_bytes.clone();
        let plan = plan.clone();
        tokio::spawn(async move {
            loop {
                let (addr, c) = world::next_established().await;
                let hostile = addr == ORIGIN.parse::<SocketAddr>().unwrap() || addr == SOCKS.parse::<SocketAddr>().unwrap();
                let attack = attack.clone();
                let plan = plan.clone();
                tokio::spawn(async move {
                    if hostile {
                        let bytes = attack.lock().unwrap().take();
                        if let Some(b) = bytes {
                            // let the request arrive first, then answer with the attack
                            let _ = tokio::time::timeout(Duration::from_millis(5), c.read(64 * 1024)).await;
                            let c2 = c.clone();
                            let d = tokio::spawn(drain(c2));
                            deliver(&plan, &c, &b).await;
                            sleep_us(50_000).await;
                            d.abort();
                            c.shutdown_write();
                            return;
                        }
                    }
                    loop {
                        match c.read(64 * 1024).await {
                            PeerRead::Data(d) => {
                                if c.write_all(&d).await.is_err() {
                                    break;
                                }
                            }
                            _ => break,
                        }
                    }
                    c.shutdown_write();
                });
            }
        })
    };

    // the bystander: a tunnel to an echo host (not through SOCKS: its own endpoint settings apply)
    let bystander_possible = surface != "socks-server";
    let by = h1_session(&ep, "203.0.113.10:40000", EpFaults::default());
    if bystander_possible {
        if h1_connect(&by, ECHO_HOST).await == Some(200) {
            obs.bystander_before = echo_once(&by, 1).await;
        }
    }

    let faults = EpFaults { read_cut: plan.ep_read.to_cut(), ..EpFaults::default() };
    // ---- the attack ------------------------------------------------------------------------
    match surface {
        "h1-session" => {
            let base: Vec<u8> = match plan.base {
                0 => format!("CONNECT {} HTTP/1.1\r\nHost: x\r\nProxy-Authorization: {}\r\n\r\n{}", VICTIM_HOST, auth(), "payload-bytes ".repeat(20)).into_bytes(),
                1 => format!("GET http://origin.sim.test/p HTTP/1.1\r\nHost: origin.sim.test\r\nProxy-Authorization: {}\r\nAccept: */*\r\n\r\n", auth()).into_bytes(),
                2 => format!("POST http://origin.sim.test/u HTTP/1.1\r\nHost: origin.sim.test\r\nProxy-Authorization: {}\r\nTransfer-Encoding: chunked\r\n\r\n5\r\nhello\r\n1f\r\n{}\r\n0\r\n\r\n", auth(), "x".repeat(31)).into_bytes(),
                _ => format!("CONNECT _udp2 HTTP/1.1\r\nHost: _udp2\r\nProxy-Authorization: {}\r\n\r\n", auth()).into_bytes(),
            };
            let mut wire = base;
            for m in &plan.mutations {
                mutate(&mut wire, m, &mut mrng);
            }
            obs.input_len = wire.len();
            let c = h1_session(&ep, "203.0.113.66:40001", faults);
            let d = tokio::spawn(drain(c.clone()));
            obs.delivered = deliver(&plan, &c, &wire).await;
            sleep_us(100_000).await;
            d.abort();
            c.reset();
        }
        "h2-session" => {
            let mut wire = h2_transcript(plan.base).await;
            for m in &plan.mutations {
                mutate(&mut wire, m, &mut mrng);
            }
            obs.input_len = wire.len();
            let (stream, c) = world::client_conn("203.0.113.66:40002".parse().unwrap(), 1 << 20, 1 << 20, faults);
            let core = ep.core.clone();
            tokio::spawn(async move { core.verif_serve_session(true, stream, "vpn.example".into(), None).await });
            let d = tokio::spawn(drain(c.clone()));
            obs.delivered = deliver(&plan, &c, &wire).await;
            sleep_us(100_000).await;
            d.abort();
            c.reset();
        }
        "udp-mux" | "icmp-mux" => {
            let c = h1_session(&ep, "203.0.113.66:40003", faults);
            let authority = if surface == "udp-mux" { "_udp2" } else { "_icmp" };
            if h1_connect(&c, authority).await == Some(200) {
                let mut wire = Vec::new();
                if surface == "udp-mux" {
                    for k in 0..3u16 {
                        let src: SocketAddr = format!("10.0.0.2:{}", 5000 + k).parse().unwrap();
                        let dst: SocketAddr = if plan.base % 2 == 0 { "93.184.216.99:53".parse().unwrap() } else { "[2001:db8:7::9]:4000".parse().unwrap() };
                        wire.extend(crate::scenarios::udp::encode_record(src, dst, b"app", &pattern(k as u64, 0, 40 + k as usize * 30), None));
                    }
                } else {
                    for k in 0..4u16 {
                        let dst: std::net::IpAddr = if plan.base % 2 == 0 { "93.184.216.34".parse().unwrap() } else { "2001:db8:7::1".parse().unwrap() };
                        wire.extend(crate::scenarios::icmp::request_record(7, dst, k, 64, 56));
                    }
                }
                for m in &plan.mutations {
                    mutate(&mut wire, m, &mut mrng);
                }
                obs.input_len = wire.len();
                let d = tokio::spawn(drain(c.clone()));
                obs.delivered = deliver(&plan, &c, &wire).await;
                sleep_us(100_000).await;
                d.abort();
            }
            c.reset();
        }
        "origin-response" | "socks-server" => {
            let base: Vec<u8> = if surface == "origin-response" {
                match plan.base {
                    0 => b"HTTP/1.1 200 OK\r\nContent-Length: 11\r\nServer: o\r\n\r\nhello world".to_vec(),
                    1 => b"HTTP/1.1 200 OK\r\nTransfer-Encoding: chunked\r\n\r\n5\r\nhello\r\n6;ext=1\r\n world\r\n0\r\n\r\n".to_vec(),
                    2 => b"HTTP/1.1 100 Continue\r\n\r\nHTTP/1.1 204 No Content\r\nConnection: close\r\n\r\n".to_vec(),
                    _ => b"HTTP/1.1 200 OK\r\nConnection: close\r\n\r\nbody until the end of the connection".to_vec(),
                }
            } else {
                // method selection, (authentication status), reply with a bound address
                let mut v = vec![0x05, if plan.base >= 2 { 0x02 } else { 0x00 }];
                if plan.base >= 2 {
                    v.extend_from_slice(&[0x01, 0x00]);
                }
                v.extend_from_slice(&[0x05, 0x00, 0x00, 0x01, 10, 0, 0, 1, 0x1f, 0x90]);
                v.extend_from_slice(b"tunnelled bytes");
                v
            };
            let mut wire = base;
            for m in &plan.mutations {
                mutate(&mut wire, m, &mut mrng);
            }
            obs.input_len = wire.len();
            *attack_bytes.lock().unwrap() = Some(wire);
            let c = h1_session(&ep, "203.0.113.66:40004", faults);
            let req = if surface == "origin-response" {
                format!("GET http://origin.sim.test/p HTTP/1.1\r\nHost: origin.sim.test\r\nProxy-Authorization: {}\r\n\r\n", auth())
            } else if plan.base % 2 == 0 {
                format!("CONNECT {} HTTP/1.1\r\nHost: x\r\nProxy-Authorization: {}\r\n\r\n", VICTIM_HOST, auth())
            } else {
                format!("CONNECT _udp2 HTTP/1.1\r\nHost: _udp2\r\nProxy-Authorization: {}\r\n\r\n", auth())
            };
            let _ = c.write_all(req.as_bytes()).await;
            let d = tokio::spawn(drain(c.clone()));
            sleep_us(300_000).await;
            obs.delivered = obs.input_len;
            d.abort();
            c.reset();
        }
        "metrics-listener" | "tls-first-bytes" => {
            let base: Vec<u8> = if surface == "metrics-listener" {
                match plan.base {
                    0 => b"GET /metrics HTTP/1.1\r\nHost: m\r\n\r\n".to_vec(),
                    1 => b"GET /health-check HTTP/1.1\r\n\r\n".to_vec(),
                    2 => b"POST /metrics HTTP/1.1\r\nContent-Length: 5\r\n\r\nhello".to_vec(),
                    _ => b"GET /metrics HTTP/1.0\r\n\r\nGET /metrics HTTP/1.1\r\n\r\n".to_vec(),
                }
            } else {
                crate::tls::build_hello(&crate::tls::HelloSpec {
                    random: mrng.bytes(32),
                    session_id_len: 32,
                    sni: Some("vpn.example".into()),
                    alpn: vec!["h2".into(), "http/1.1".into()],
                    big_share: if plan.base == 1 { 1216 } else { 0 },
                    padding: if plan.base == 2 { 300 } else { 0 },
                    record_limit: if plan.base == 3 { 100 } else { 0 },
                    extra_suites: 3,
                })
            };
            let mut wire = base;
            for m in &plan.mutations {
                mutate(&mut wire, m, &mut mrng);
            }
            obs.input_len = wire.len();
            let to: SocketAddr = if surface == "metrics-listener" { METRICS.parse().unwrap() } else { cfg.listen };
            if let Some(c) = world::connect_to_listener(to, "203.0.113.66:40005".parse().unwrap(), 1 << 20, 1 << 20, faults) {
                // what rustls answers depends on entropy the simulation does not own
                c.set_quiet(surface == "tls-first-bytes");
                let d = tokio::spawn(drain(c.clone()));
                obs.delivered = deliver(&plan, &c, &wire).await;
                sleep_us(100_000).await;
                d.abort();
                c.reset();
            } else {
                obs.setup_error = Some(format!("nothing listens on {}", to));
            }
        }
        "raw-icmp" => {
            // a pending request, then packets built around it
            let c = h1_session(&ep, "203.0.113.66:40006", faults);
            if h1_connect(&c, "_icmp").await == Some(200) {
                let v4 = plan.base % 2 == 0;
                let dst: std::net::IpAddr = if v4 { "93.184.216.34".parse().unwrap() } else { "2001:db8:7::1".parse().unwrap() };
                let _ = c.write_all(&crate::scenarios::icmp::request_record(7, dst, 1, 64, 24)).await;
                sleep_us(2_000).await;
                let sent = world::with(|w| w.icmp_sent.last().cloned());
                let mut wire: Vec<u8> = match (&sent, plan.base / 2) {
                    (Some(s), 0) => {
                        // echo reply
                        let mut m = s.packet.clone();
                        if !m.is_empty() {
                            m[0] = if v4 { 0 } else { 129 };
                        }
                        m
                    }
                    (Some(s), _) => {
                        // an error quoting the request behind an IP header
                        let mut m = vec![if v4 { 3 } else { 1 }, 1, 0, 0, 0, 0, 0, 0];
                        if v4 {
                            m.extend_from_slice(&[0x45, 0, 0, 52, 0, 0, 0, 0, 64, 1, 0, 0, 198, 51, 100, 1, 93, 184, 216, 34]);
                        } else {
                            let mut h = vec![0x60, 0, 0, 0, 0, 32, 58, 64];
                            h.extend_from_slice(&[0x20, 1, 0x0d, 0xb8, 1, 0, 0, 0, 0, 0, 0, 0, 0, 0, 0, 1]);
                            h.extend_from_slice(&[0x20, 1, 0x0d, 0xb8, 0, 7, 0, 0, 0, 0, 0, 0, 0, 0, 0, 1]);
                            m.extend(h);
                        }
                        m.extend_from_slice(&s.packet);
                        m
                    }
                    _ => vec![0; 8],
                };
                if v4 {
                    let mut p = vec![0x45, 0, 0, 0, 0, 0, 0, 0, 57, 1, 0, 0, 93, 184, 216, 34, 198, 51, 100, 1];
                    p.extend(wire);
                    wire = p;
                }
                for m in &plan.mutations {
                    mutate(&mut wire, m, &mut mrng);
                }
                obs.input_len = wire.len();
                let from: std::net::IpAddr = if v4 { "93.184.216.34".parse().unwrap() } else { "2001:db8:7::1".parse().unwrap() };
                for _ in 0..3 {
                    world::icmp_deliver(v4, from, &wire);
                    sleep_us(1_000).await;
                }
                obs.delivered = wire.len();
                sleep_us(20_000).await;
            }
            c.reset();
        }
        _ => {}
    }

    // ---- afterwards ------------------------------------------------------------------------
    if bystander_possible {
        obs.bystander_after_same_tunnel = echo_once(&by, 2).await;
        let by2 = h1_session(&ep, "203.0.113.11:40000", EpFaults::default());
        if h1_connect(&by2, ECHO_HOST).await == Some(200) {
            obs.bystander_after_new_tunnel = echo_once(&by2, 3).await;
        }
        by2.reset();
    }
    by.reset();
    sleep_us(10_000).await;
    obs.listen_ended = listening.task.is_finished();
    if obs.listen_ended {
        if let Ok(r) = listening.task.await {
            obs.listen_result = Some(format!("{:?}", r.map_err(|e| e.to_string())));
        }
    } else {
        listening.task.abort();
    }
    hosts.abort();
    obs
}

fn run_files(plan: &BPlan, mrng: &mut Rng) -> Obs {
    let mut obs = Obs::default();
    let dir = format!("/verif/work/byz-{}-{:x}", std::process::id(), plan.seed);
    let _ = std::fs::create_dir_all(&dir);
    let creds = format!("{}/credentials.toml", dir);
    let rules = format!("{}/rules.toml", dir);
    let mut c = b"[[client]]\nusername = \"u0\"\npassword = \"p0-secret-password\"\n\n[[client]]\nusername = \"u1\"\npassword = \"other\"\n".to_vec();
    let mut r = b"[[rule]]\ncidr = \"10.0.0.0/8\"\naction = \"deny\"\n\n[[rule]]\nclient_random_prefix = \"aabb/ff00\"\naction = \"allow\"\n\n[[rule]]\naction = \"deny\"\n".to_vec();
    for m in &plan.mutations {
        if plan.base % 2 == 0 {
            mutate(&mut c, m, mrng);
        } else {
            mutate(&mut r, m, mrng);
        }
    }
    obs.input_len = c.len() + r.len();
    let _ = std::fs::write(&creds, &c);
    let _ = std::fs::write(&rules, &r);
    let json = serde_json::json!({
        "listen_address": LISTEN,
        "listen_protocols": {"http1": {}, "http2": {}},
        "credentials_file": creds,
        "rules_file": rules,
    });
    let res = std::panic::catch_unwind(|| {
        serde_json::from_value::<trusttunnel::settings::Settings>(json).map_err(|e| e.to_string()).and_then(|s| {
            // what a start-up does with them
            let clients = s.get_clients();
            let _ = trusttunnel::authentication::registry_based::RegistryBasedAuthenticator::new(clients);
            Ok(())
        })
    });
    obs.startup = Some(match res {
        Ok(r) => r,
        Err(_) => Err("PANIC".into()),
    });
    obs.delivered = obs.input_len;
    obs.bystander_before = true;
    obs.bystander_after_same_tunnel = true;
    obs.bystander_after_new_tunnel = true;
    let _ = std::fs::remove_dir_all(&dir);
    obs
}

fn judge(plan: &BPlan, o: &Obs, heap: u64, panicked: bool, out: &mut Outcome) {
    if let Some(e) = &o.setup_error {
        out.violate("HARNESS", "byzantine-setup", e.clone());
        return;
    }
    let surface = SURFACES[plan.surface % SURFACES.len()];
    out.nontrivial = o.delivered > 0 || o.input_len == 0;
    out.cell(format!(
        "byz:{}:base{}:{}",
        surface,
        plan.base,
        match plan.mutations.len() {
            0 => "pristine",
            1 => "1-mutation",
            _ => "n-mutations",
        }
    ));
    if panicked {
        // reported by sim::finish with the panicking function; the rest follows from it
        return;
    }
    if surface == "files" {
        if let Some(Err(e)) = &o.startup {
            if e == "PANIC" {
                out.violate("C09", "byz:files:panic", "start-up panicked on a mutated file".to_string());
            }
        }
        return;
    }
    if o.listen_ended {
        out.violate(
            "C09",
            format!("byz:{}:listen-returned", surface),
            format!("Core::listen() returned during the attack: {:?}", o.listen_result),
        );
    }
    if surface != "socks-server" {
        if !o.bystander_before {
            out.violate("HARNESS", "byzantine-bystander", "the bystander's tunnel did not work before the attack".to_string());
            return;
        }
        if !o.bystander_after_same_tunnel {
            out.violate("C09", format!("byz:{}:bystander-tunnel-broken", surface), "a tunnel of another client stopped relaying during the attack".to_string());
        }
        if !o.bystander_after_new_tunnel {
            out.violate("C09", format!("byz:{}:new-clients-not-served", surface), "a new client was not served after the attack".to_string());
        }
    }
    // the bound: what the settings allow a connection to hold (windows, buffers) plus slack;
    // the input itself is at most ~70 KiB
    // ICMP: a 23-byte record asks for an echo of up to 65 535 bytes, which the waiter table
    // holds until the request time-out - amplification inherent in PROTOCOL.md 7.3 (DESIGN.md);
    // the serialised packet and the world's own record of what was sent are further copies
    let bound = (48u64 << 20) + if surface == "icmp-mux" || surface == "raw-icmp" { (o.input_len as u64 / 23 + 1) * 200_000 } else { 0 };
    if heap > bound {
        out.violate(
            "C09",
            format!("byz:{}:heap-growth", surface),
            format!("{} bytes of input made the heap grow by {} bytes", o.input_len, heap),
        );
    }
}
