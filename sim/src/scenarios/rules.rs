//! C04: connection filtering rules, enforced before the TLS handshake is answered (path T).
//! The rule list, the peer address as the listener reports it and a byte-exact ClientHello
//! are planned; a reference evaluator written from CONFIGURATION.md decides allow / deny /
//! either; the observable is whether the endpoint writes anything to the connection.

use crate::endpoint::{self, EpConfig};
use crate::patht;
use crate::prng::Rng;
use crate::scenario::*;
use crate::sim::{self, Outcome};
use crate::tls::{build_hello, hello_in_first_record, HelloSpec};
use crate::world::{self, EpFaults, PeerRead};
use serde::{Deserialize, Serialize};
use serde_json::Value;
use std::net::{IpAddr, SocketAddr};
use std::time::Duration;

pub struct Rules;

#[derive(Clone, Debug, Serialize, Deserialize)]
pub struct RuleP {
    pub cidr: Option<String>,
    pub random: Option<String>,
    /// "allow", "deny" or something else (only expressible in a file)
    pub action: String,
}

#[derive(Clone, Debug, Serialize, Deserialize)]
pub struct RPlan {
    pub seed: u64,
    pub rules: Vec<RuleP>,
    /// load the rules through `rules_file` (TOML) instead of the builder
    pub via_file: bool,
    /// 0 = file as written, 1 = file missing, 2 = file is not TOML
    pub file_fault: u8,
    pub peer: String,
    pub dual_stack_listener: bool,
    pub hello: HelloSpec,
    /// send something that is not a ClientHello at all
    pub garbage_first: bool,
    pub cuts: Vec<usize>,
    pub gap_us: u64,
}

fn listen_addr(dual: bool) -> SocketAddr {
    if dual {
        "[::]:443".parse().unwrap()
    } else {
        "198.51.100.1:443".parse().unwrap()
    }
}

fn hex(b: &[u8]) -> String {
    b.iter().map(|x| format!("{:02x}", x)).collect()
}

fn unhex(s: &str) -> Option<Vec<u8>> {
    if s.len() % 2 != 0 {
        return None;
    }
    (0..s.len() / 2).map(|i| u8::from_str_radix(s.get(2 * i..2 * i + 2)?, 16).ok()).collect()
}

impl Scenario for Rules {
    fn name(&self) -> &'static str {
        "rules"
    }

    fn budget(&self, tier: Tier) -> u64 {
        match tier {
            Tier::Quick => 50_000,
            Tier::Thorough => 4_000_000,
        }
    }

    fn generate(&self, seed: u64, index: u64, _tier: Tier) -> Value {
        let mut rng = Rng::new(seed).fork(&format!("rules{}", index));
        let random = rng.bytes(32);
        let peers = ["203.0.113.5", "10.1.2.3", "192.168.1.77", "2001:db8:1::5", "fd00::7", "::ffff:10.1.2.3", "::ffff:203.0.113.5"];
        // half of the runs: a peer drawn from the shapes an accept() can report - any IPv4, any
        // IPv6, IPv4-mapped (an IPv4 peer of a dual-stack listener), and the IPv6 addresses that
        // merely look like IPv4 (::a.b.c.d, ::1, ::, 64:ff9b::a.b.c.d, 2002:a.b.c.d::), which are
        // IPv6 peers and must be judged as such
        let peer = if rng.chance(1, 2) {
            (*rng.pick(&peers)).to_string()
        } else {
            let v4 = [*rng.pick(&[10u8, 127, 172, 192, 203, 8, 100, 0]), rng.below(256) as u8, rng.below(256) as u8, 1 + rng.below(254) as u8];
            let v4s = format!("{}.{}.{}.{}", v4[0], v4[1], v4[2], v4[3]);
            match rng.below(9) {
                0 => v4s,
                1 => format!("::ffff:{}", v4s),
                2 => format!("::{}", v4s),
                3 => "::1".to_string(),
                4 => format!("64:ff9b::{}", v4s),
                5 => format!("2002:{:x}:{:x}::1", u16::from_be_bytes([v4[0], v4[1]]), u16::from_be_bytes([v4[2], v4[3]])),
                6 => format!("::{:x}", 2 + rng.below(0xfffe)),
                7 => format!("fe80::{:x}", 1 + rng.below(0xffff)),
                _ => format!("2a02:{:x}:{:x}::{:x}", rng.below(0x10000), rng.below(0x10000), 1 + rng.below(0xffff)),
            }
        };
        let peer_ip: IpAddr = peer.parse().unwrap();
        let canon = match peer_ip {
            IpAddr::V6(v) => v.to_ipv4_mapped().map(IpAddr::V4).unwrap_or(peer_ip),
            x => x,
        };
        let via_file = rng.chance(1, 3);
        let n = rng.usize_below(7);
        let mut rules = Vec::new();
        for _ in 0..n {
            let cidr = match rng.below(8) {
                0 | 1 | 2 => None,
                3 => Some(match canon {
                    // a network that contains the peer
                    IpAddr::V4(a) => format!("{}.{}.0.0/16", a.octets()[0], a.octets()[1]),
                    IpAddr::V6(a) => format!("{:x}:{:x}::/32", a.segments()[0], a.segments()[1]),
                }),
                4 => Some(match canon {
                    IpAddr::V4(a) => format!("{}/32", a),
                    IpAddr::V6(a) => format!("{}/128", a),
                }),
                5 => Some(match (rng.below(3), peer_ip) {
                    // the IPv4 networks around the low 32 bits of an IPv6 peer: they do not contain it
                    (0, IpAddr::V6(a)) if a.to_ipv4_mapped().is_none() => {
                        let o = a.octets();
                        if rng.chance(1, 2) { format!("{}.{}.{}.{}/32", o[12], o[13], o[14], o[15]) } else { format!("{}.0.0.0/8", o[12]) }
                    }
                    (1, _) => (*rng.pick(&["::/96", "::/127", "::1/128", "::/8", "0.0.0.0/8"])).to_string(),
                    _ => (*rng.pick(&["172.16.0.0/12", "8.8.8.0/24", "2001:4860::/32", "0.0.0.0/0", "::/0"])).to_string(),
                }),
                6 => Some((*rng.pick(&["10.0.0.0/40", "not-a-cidr", "10.1.2.3", "", "300.1.1.1/8"])).to_string()),
                _ => Some(match canon {
                    // one bit off: the neighbouring /24 or /64
                    IpAddr::V4(a) => format!("{}.{}.{}.0/24", a.octets()[0], a.octets()[1], a.octets()[2] ^ 1),
                    IpAddr::V6(a) => format!("{:x}:{:x}:{:x}:{:x}::/64", a.segments()[0], a.segments()[1], a.segments()[2], a.segments()[3] ^ 1),
                }),
            };
            let k = 1 + rng.usize_below(6);
            let pattern = match rng.below(12) {
                0..=3 => None,
                4 => Some(hex(&random[..k])),
                5 => {
                    // one bit off
                    let mut p = random[..k].to_vec();
                    p[k - 1] ^= 1 << rng.below(8);
                    Some(hex(&p))
                }
                6 => {
                    // masked: differs only outside the mask
                    let mask: Vec<u8> = (0..k).map(|_| *rng.pick(&[0xffu8, 0xf0, 0x0f, 0x00, 0x81])).collect();
                    let p: Vec<u8> = (0..k).map(|i| random[i] ^ (!mask[i] & rng.below(256) as u8)).collect();
                    Some(format!("{}/{}", hex(&p), hex(&mask)))
                }
                7 => {
                    // masked: differs inside the mask
                    let mask: Vec<u8> = (0..k).map(|_| *rng.pick(&[0xffu8, 0xf0, 0x0f, 0x81])).collect();
                    let mut p: Vec<u8> = random[..k].to_vec();
                    let i = rng.usize_below(k);
                    let bit = (0..8).map(|b| 1u8 << b).find(|b| mask[i] & b != 0).unwrap_or(1);
                    p[i] ^= bit;
                    Some(format!("{}/{}", hex(&p), hex(&mask)))
                }
                8 => Some(match rng.below(4) {
                    // malformed, yet made of the random's own digits: an odd number of them,
                    // upper case, a stray space, a non-hex digit at the end
                    0 => {
                        let h = hex(&random[..k]);
                        h[..h.len() - 1].to_string()
                    }
                    1 => format!("{}g", hex(&random[..k])),
                    2 => {
                        let h = hex(&random[..k]);
                        let mask = "ff".repeat(k);
                        format!("{}/{}", &h[..h.len() - 1], &mask[..mask.len() - 1])
                    }
                    _ => (*rng.pick(&["zz", "abc", "aabb/zz", "/ff", "aa/"])).to_string(),
                }),
                9 => Some(hex(&random)),
                10 => Some(format!("{}/{}", hex(&random[..k]), hex(&vec![0xff; k + 1]))),
                _ => Some(String::new()),
            };
            let action = if via_file && rng.chance(1, 8) {
                (*rng.pick(&["reject", "ALLOW", ""])).to_string()
            } else if rng.chance(1, 2) {
                "allow".to_string()
            } else {
                "deny".to_string()
            };
            rules.push(RuleP { cidr, random: pattern, action });
        }
        let fragment = rng.chance(1, 4);
        let plan = RPlan {
            seed: rng.next_u64(),
            rules,
            via_file,
            file_fault: if via_file && rng.chance(1, 6) { 1 + rng.below(2) as u8 } else { 0 },
            dual_stack_listener: peer.starts_with("::ffff:") || rng.chance(1, 4),
            peer,
            hello: HelloSpec {
                random,
                session_id_len: *rng.pick(&[0usize, 32]),
                sni: Some("vpn.example".into()),
                alpn: vec!["h2".into(), "http/1.1".into()],
                big_share: if rng.chance(1, 4) { 1216 } else { 0 },
                padding: if rng.chance(1, 4) { rng.usize_below(400) } else { 0 },
                record_limit: if fragment { 64 + rng.usize_below(200) } else { 0 },
                extra_suites: rng.usize_below(10),
            },
            garbage_first: rng.chance(1, 20),
            cuts: (0..rng.usize_below(4)).map(|_| 1 + rng.usize_below(300)).collect(),
            gap_us: if rng.chance(1, 2) { 0 } else { rng.size(1, 20_000) },
        };
        to_plan(&plan)
    }

    fn execute(&self, plan: &Value) -> Outcome {
        let plan: RPlan = match from_plan(plan) {
            Ok(p) => p,
            Err(e) => return harness_error(e),
        };
        let p2 = plan.clone();
        let (obs, rep) = sim::run(plan.seed, Duration::from_secs(3600), move || run(p2));
        let mut out = Outcome::default();
        match obs {
            Some(obs) => judge(&plan, &obs, &mut out),
            None => {
                if !rep.main_panicked {
                    out.inconclusive = true;
                }
            }
        }
        sim::finish(out, &rep)
    }
}

#[derive(Debug, Default, Clone)]
pub struct Obs {
    pub setup_error: Option<String>,
    pub bytes_from_endpoint: Vec<u8>,
    pub closed_by_endpoint_at: Option<u64>,
    pub listen_ended: bool,
    /// how the listener reads this very first flight (same bytes, same cuts) when the hello
    /// does not fit the first record: Some(true) = it has the exact random, Some(false) = absent
    pub probe_reading: Option<bool>,
}

fn rules_toml(rules: &[RuleP]) -> String {
    let mut s = String::from("# generated\n");
    for r in rules {
        s.push_str("[[rule]]\n");
        if let Some(c) = &r.cidr {
            s.push_str(&format!("cidr = \"{}\"\n", c));
        }
        if let Some(p) = &r.random {
            s.push_str(&format!("client_random_prefix = \"{}\"\n", p));
        }
        s.push_str(&format!("action = \"{}\"\n\n", r.action));
    }
    s
}

async fn run(plan: RPlan) -> Obs {
    let mut obs = Obs::default();
    let listen = listen_addr(plan.dual_stack_listener);
    let ep = if plan.via_file {
        let dir = format!("/verif/work/rules-{}-{:x}", std::process::id(), plan.seed);
        let _ = std::fs::create_dir_all(&dir);
        let creds = format!("{}/credentials.toml", dir);
        let rules = format!("{}/rules.toml", dir);
        let _ = std::fs::write(&creds, "[[client]]\nusername = \"u0\"\npassword = \"p0-secret-password\"\n");
        match plan.file_fault {
            1 => {
                // settings name a file which then disappears... the deserializer wants an
                // existing path, so the documented case is an unreadable one: a directory
                let _ = std::fs::create_dir_all(&rules);
            }
            2 => {
                let _ = std::fs::write(&rules, "[[rule\ncidr = \"10.0.0.0/8\naction = deny");
            }
            _ => {
                let _ = std::fs::write(&rules, rules_toml(&plan.rules));
            }
        }
        let json = serde_json::json!({
            "listen_address": listen.to_string(),
            "listen_protocols": {"http1": {}, "http2": {}},
            "credentials_file": creds,
            "rules_file": rules,
        });
        let r = serde_json::from_value::<trusttunnel::settings::Settings>(json)
            .map_err(|e| format!("settings: {}", e))
            .and_then(|s| {
                let cfg = EpConfig::default();
                let t = endpoint::tls_hosts(&cfg)?;
                let shutdown = trusttunnel::shutdown::Shutdown::new();
                let auth = endpoint::registry(&cfg);
                trusttunnel::core::Core::new(s, auth, t, shutdown.clone())
                    .map(|c| endpoint::Endpoint { core: std::sync::Arc::new(c), shutdown })
                    .map_err(|e| format!("{:?}", e))
            });
        let _ = std::fs::remove_dir_all(&dir);
        r
    } else {
        // the builder route: malformed fields are kept as strings, as the engine stores them
        let cfg = EpConfig {
            listen,
            ..EpConfig::default()
        };
        let rules: Vec<trusttunnel::rules::Rule> = plan
            .rules
            .iter()
            .filter_map(|r| {
                Some(trusttunnel::rules::Rule {
                    cidr: r.cidr.clone(),
                    client_random_prefix: r.random.clone(),
                    action: match r.action.as_str() {
                        "allow" => trusttunnel::rules::RuleAction::Allow,
                        "deny" => trusttunnel::rules::RuleAction::Deny,
                        _ => return None,
                    },
                })
            })
            .collect();
        endpoint::settings(&cfg).and_then(|_| {
            // settings() has no rules hook: rebuild with the engine
            build_with_rules(&cfg, rules)
        })
    };
    let ep = match ep {
        Ok(e) => e,
        Err(e) => {
            obs.setup_error = Some(e);
            return obs;
        }
    };
    // the configuration and the hello are inputs of this run: their digest is part of its state
    world::note(
        900,
        crate::prng::fnv64(format!("{:?}{}{}{}", plan.rules, plan.peer, plan.via_file, plan.file_fault).as_bytes()),
        crate::prng::fnv64(&plan.hello.random),
    );
    let listening = patht::start(&ep, listen).await;
    let peer_addr = SocketAddr::new(plan.peer.parse().unwrap(), 40_123);
    {
        // A hello that does not fit the first record may legitimately be read as "random absent"
        // or exactly. Which of the two this listener does is found out with a second endpoint
        // whose rules admit exactly this random and nothing else, fed the same bytes the same way.
        let wire = build_hello(&plan.hello);
        if !plan.garbage_first && !hello_in_first_record(&wire, 16 * 1024) {
            let listen_b: SocketAddr = if plan.dual_stack_listener { "[::]:8443".parse().unwrap() } else { "198.51.100.1:8443".parse().unwrap() };
            let cfg_b = EpConfig { listen: listen_b, ..EpConfig::default() };
            let probe_rules = vec![
                trusttunnel::rules::Rule { cidr: None, client_random_prefix: Some(hex(&plan.hello.random)), action: trusttunnel::rules::RuleAction::Allow },
                trusttunnel::rules::Rule { cidr: None, client_random_prefix: None, action: trusttunnel::rules::RuleAction::Deny },
            ];
            if let Ok(ep_b) = build_with_rules(&cfg_b, probe_rules) {
                let lb = patht::start(&ep_b, listen_b).await;
                if let Some(c) = patht::connect_raw(listen_b, peer_addr, EpFaults::default()) {
                    let gaps: Vec<u64> = plan.cuts.iter().map(|_| plan.gap_us).collect();
                    let w = {
                        let c = c.clone();
                        let cuts = plan.cuts.clone();
                        tokio::spawn(async move {
                            let _ = crate::actors::write_pieces(&c, &wire, &cuts, &gaps).await;
                        })
                    };
                    let got = tokio::time::timeout(Duration::from_secs(25), c.read(4096)).await;
                    obs.probe_reading = Some(matches!(got, Ok(PeerRead::Data(_))));
                    w.abort();
                    c.reset();
                    tokio::time::sleep(Duration::from_millis(10)).await;
                }
                lb.task.abort();
            }
        }
    }
    let conn = match patht::connect_raw(listen, peer_addr, EpFaults::default()) {
        Some(c) => c,
        None => {
            obs.setup_error = Some("nothing listens".into());
            return obs;
        }
    };
    let wire = if plan.garbage_first {
        let mut g = b"GET / HTTP/1.1\r\nHost: vpn.example\r\n\r\n".to_vec();
        g.extend(std::iter::repeat(0x41).take(200));
        g
    } else {
        build_hello(&plan.hello)
    };
    let gaps: Vec<u64> = plan.cuts.iter().map(|_| plan.gap_us).collect();
    let w = {
        let conn = conn.clone();
        let cuts = plan.cuts.clone();
        tokio::spawn(async move {
            let _ = crate::actors::write_pieces(&conn, &wire, &cuts, &gaps).await;
        })
    };
    // what comes back within the handshake time-out (10 s) and a little more
    let deadline = tokio::time::Instant::now() + Duration::from_secs(25);
    loop {
        match tokio::time::timeout_at(deadline, conn.read(4096)).await {
            Ok(PeerRead::Data(d)) => {
                obs.bytes_from_endpoint.extend_from_slice(&d);
                if obs.bytes_from_endpoint.len() > 6 {
                    break;
                }
            }
            Ok(_) => {
                obs.closed_by_endpoint_at = Some(world::now_us());
                break;
            }
            Err(_) => break,
        }
    }
    w.abort();
    obs.listen_ended = listening.task.is_finished();
    conn.shutdown_write();
    conn.stop_reading();
    tokio::time::sleep(Duration::from_millis(100)).await;
    listening.task.abort();
    obs
}

fn build_with_rules(cfg: &EpConfig, rules: Vec<trusttunnel::rules::Rule>) -> Result<endpoint::Endpoint, String> {
    use trusttunnel::settings::{Http1Settings, Http2Settings, ListenProtocolSettings, Settings};
    let s = Settings::builder()
        .listen_address(cfg.listen)
        .map_err(|e| e.to_string())?
        .listen_protocols(ListenProtocolSettings {
            http1: Some(Http1Settings::builder().build()),
            http2: Some(Http2Settings::builder().build()),
            quic: None,
        })
        .clients(vec![trusttunnel::authentication::registry_based::Client {
            username: "u0".into(),
            password: "p0-secret-password".into(),
        }])
        .rules_engine(trusttunnel::rules::RulesEngine::from_config(trusttunnel::rules::RulesConfig { rule: rules }))
        .build()
        .map_err(|e| format!("{:?}", e))?;
    let t = endpoint::tls_hosts(cfg)?;
    let shutdown = trusttunnel::shutdown::Shutdown::new();
    let core = trusttunnel::core::Core::new(s, endpoint::registry(cfg), t, shutdown.clone()).map_err(|e| format!("{:?}", e))?;
    Ok(endpoint::Endpoint {
        core: std::sync::Arc::new(core),
        shutdown,
    })
}

// ---------------------------------------------------------------------------------------
// reference evaluator (CONFIGURATION.md, "Rules Reference")
// ---------------------------------------------------------------------------------------

#[derive(Clone, Copy, PartialEq, Debug)]
enum Tri {
    Yes,
    No,
    Unclear,
}

fn parse_cidr(s: &str) -> Option<(IpAddr, u32)> {
    let (a, l) = s.split_once('/')?;
    let ip: IpAddr = a.parse().ok()?;
    let len: u32 = l.parse().ok()?;
    let max = if ip.is_ipv4() { 32 } else { 128 };
    if len > max {
        return None;
    }
    Some((ip, len))
}

fn cidr_contains(net: (IpAddr, u32), ip: IpAddr) -> bool {
    match (net.0, ip) {
        (IpAddr::V4(n), IpAddr::V4(a)) => {
            let m = if net.1 == 0 { 0 } else { u32::MAX << (32 - net.1) };
            u32::from(n) & m == u32::from(a) & m
        }
        (IpAddr::V6(n), IpAddr::V6(a)) => {
            let m = if net.1 == 0 { 0 } else { u128::MAX << (128 - net.1) };
            u128::from(n) & m == u128::from(a) & m
        }
        _ => false,
    }
}

fn rule_matches(r: &RuleP, ip: IpAddr, random: &[u8]) -> Tri {
    let mut result = Tri::Yes;
    if let Some(c) = &r.cidr {
        match parse_cidr(c) {
            None => return Tri::No, // malformed field: the rule never matches
            Some(net) => {
                if !cidr_contains(net, ip) {
                    return Tri::No;
                }
            }
        }
    }
    if let Some(p) = &r.random {
        if let Some((pre, mask)) = p.split_once('/') {
            match (unhex(pre), unhex(mask)) {
                (Some(pre), Some(mask)) => {
                    if pre.len() != mask.len() || pre.is_empty() || pre.len() > random.len() {
                        // the documents do not say what a mask of another length means
                        result = Tri::Unclear;
                    } else if !(0..pre.len()).all(|i| random[i] & mask[i] == pre[i] & mask[i]) {
                        return Tri::No;
                    }
                }
                _ => return Tri::No,
            }
        } else {
            match unhex(p) {
                None => return Tri::No,
                Some(pre) => {
                    if pre.is_empty() || pre.len() > random.len() {
                        result = Tri::Unclear;
                    } else if !random.starts_with(&pre) {
                        return Tri::No;
                    }
                }
            }
        }
    }
    result
}

/// Some(true) = allow, Some(false) = deny, None = the documents leave it open
fn reference(rules: &[RuleP], ip: IpAddr, random: Option<&[u8]>) -> Option<bool> {
    let live: Vec<&RuleP> = rules.iter().filter(|r| r.action == "allow" || r.action == "deny").collect();
    let random = match random {
        Some(r) => r,
        None => {
            if live.iter().any(|r| r.random.is_some()) {
                return Some(false); // fail closed
            }
            &[]
        }
    };
    for r in live {
        match rule_matches(r, ip, random) {
            Tri::Yes => return Some(r.action == "allow"),
            Tri::No => {}
            Tri::Unclear => return None,
        }
    }
    Some(true)
}

fn judge(plan: &RPlan, o: &Obs, out: &mut Outcome) {
    if let Some(e) = &o.setup_error {
        if plan.via_file {
            // a settings file the endpoint refuses to load is a start-up matter (C13), not C04
            out.cell("file-refused-at-startup");
            return;
        }
        out.violate("HARNESS", "rules-setup", e.clone());
        return;
    }
    if o.listen_ended {
        out.violate("C09", "rules:listen-returned", "Core::listen() returned".to_string());
    }
    let peer: IpAddr = plan.peer.parse().unwrap();
    let actual = match peer {
        IpAddr::V6(v) => v.to_ipv4_mapped().map(IpAddr::V4).unwrap_or(peer),
        x => x,
    };
    let rules: Vec<RuleP> = if plan.via_file && plan.file_fault != 0 {
        vec![] // unreadable / unparsable file: allow all (documented)
    } else {
        plan.rules.clone()
    };
    let wire = build_hello(&plan.hello);
    let extractable = !plan.garbage_first && hello_in_first_record(&wire, 16 * 1024);
    let with_random = reference(&rules, actual, Some(&plan.hello.random));
    let without = reference(&rules, actual, None);
    let expected: Option<bool> = if plan.garbage_first {
        // not TLS at all: dropped whatever the rules say (no ServerHello can follow)
        Some(false)
    } else if extractable {
        with_random
    } else if with_random == without {
        with_random
    } else {
        // absent or exact: both readings are allowed by the statement, but the listener must
        // stick to the one it showed the probe endpoint for these very bytes
        match o.probe_reading {
            Some(true) => with_random,
            Some(false) => without,
            None => None,
        }
    };
    let mapped = plan.peer.starts_with("::ffff:");
    out.cell(format!(
        "rules{}:{}:{}:{}:{:?}",
        plan.rules.len().min(3),
        if plan.via_file { "file" } else { "builder" },
        if mapped { "mapped" } else if actual.is_ipv4() { "v4" } else { "v6" },
        if plan.garbage_first { "garbage" } else if extractable { "hello" } else { "fragmented" },
        expected
    ));
    out.nontrivial = true;
    let answered = !o.bytes_from_endpoint.is_empty();
    match expected {
        Some(false) => {
            if answered {
                out.violate(
                    "C04",
                    format!(
                        "rules:denied-but-answered:{}{}",
                        if mapped { "ipv4-mapped-peer" } else { "plain-peer" },
                        if plan.garbage_first { ":not-tls" } else { "" }
                    ),
                    format!(
                        "peer {} (actual {}), rules {:?}: the reference denies, yet the endpoint wrote {} bytes (first {:02x?})",
                        plan.peer, actual, plan.rules, o.bytes_from_endpoint.len(), &o.bytes_from_endpoint[..o.bytes_from_endpoint.len().min(6)]
                    ),
                );
            } else if o.closed_by_endpoint_at.is_none() {
                out.violate("C04", "rules:denied-not-closed", "a denied connection was still open 25 s later".to_string());
            }
        }
        Some(true) => {
            let server_hello = o.bytes_from_endpoint.len() >= 6 && o.bytes_from_endpoint[0] == 0x16 && o.bytes_from_endpoint[5] == 0x02;
            if !server_hello {
                out.violate(
                    "C04",
                    format!("rules:allowed-but-dropped:{}", if mapped { "ipv4-mapped-peer" } else { "plain-peer" }),
                    format!(
                        "peer {} (actual {}), rules {:?}, random {}: the reference allows, yet no ServerHello came ({} bytes: {:02x?})",
                        plan.peer, actual, plan.rules, hex(&plan.hello.random[..6]), o.bytes_from_endpoint.len(), &o.bytes_from_endpoint[..o.bytes_from_endpoint.len().min(8)]
                    ),
                );
            }
        }
        None => {}
    }
}
