//! C02 (and the S-level part of C14/C16 observations): TCP tunnels relayed through the real
//! `Tunnel` + `HttpDownstream` + HTTP/1.1 or HTTP/2 codec + `TcpForwarder` + `DuplexPipe`,
//! with position-coded byte streams, back-pressure, segmentation, idle-timer restarts and
//! injected socket failures.

use crate::actors::*;
use crate::endpoint::{self, EpConfig, FRACTION_US};
use crate::prng::Rng;
use crate::scenario::*;
use crate::sim::{self, Outcome};
use crate::world::{self, ConnectOutcome, EpFaults, HostPlan, PeerConn, PeerRead};
use bytes::Bytes;
use serde::{Deserialize, Serialize};
use serde_json::Value;
use std::net::SocketAddr;
use std::sync::{Arc, Mutex};
use std::time::Duration;

pub struct Relay;

#[derive(Clone, Debug, Serialize, Deserialize)]
pub struct Flow {
    pub len: u64,
    pub piece: CutP,
    /// gap before a piece, uniform in 0..=gap_us_max, applied to one piece in `gap_every`
    pub gap_us_max: u64,
    pub gap_every: u32,
    pub start_delay_us: u64,
    /// end the direction cleanly after the last byte
    pub fin: bool,
    /// HTTP/2 uploads: an empty DATA frame (no END_STREAM) before every n-th piece; 0 = never.
    /// Legal (RFC 9113 6.1), carries nothing, ends nothing.
    #[serde(default)]
    pub empty_frame_every: u32,
}

#[derive(Clone, Debug, Serialize, Deserialize)]
pub struct Reader {
    pub max: usize,
    pub gap_us_max: u64,
    /// stop reading for `1` µs once `0` bytes were received
    pub stall: Option<(u64, u64)>,
}

#[derive(Clone, Debug, Serialize, Deserialize, PartialEq)]
pub enum FaultP {
    None,
    /// the endpoint's read from the destination fails at this byte offset
    HostReadErr(u64, u8),
    /// the endpoint's write to the destination fails at this byte offset
    HostWriteErr(u64, u8),
    HostFlushErr(u8),
    HostShutdownErr(u8),
    /// the destination resets the connection after sending this many bytes
    HostReset(u64),
    /// the client resets the stream (HTTP/2) or the connection (HTTP/1.1) after sending
    /// this many bytes
    ClientAbort(u64),
}

#[derive(Clone, Debug, Serialize, Deserialize)]
pub struct TunnelPlan {
    pub connect_delay_us: u64,
    pub to_host_cap: usize,
    pub from_host_cap: usize,
    pub host_read_cut: CutP,
    pub host_write_cut: CutP,
    pub spurious_pending: u64,
    pub spurious_wouldblock: u64,
    pub up: Flow,
    pub down: Flow,
    pub client_reader: Reader,
    pub host_reader: Reader,
    /// HTTP/2 client: return receive-window credit only every this many bytes
    pub client_release_every: u64,
    pub fault: FaultP,
    /// the side that half-closes first ends its direction right after its last byte; the
    /// other side ends its direction only after it has received everything
    pub client_closes_first: bool,
}

#[derive(Clone, Debug, Serialize, Deserialize)]
pub struct RelayPlan {
    pub seed: u64,
    pub h2: bool,
    pub tcp_timeout_us: u64,
    pub h2_stream_window: u32,
    pub h2_conn_window: u32,
    pub h1_upload_buffer: usize,
    pub client_seg: CutP,
    pub client_read_cut: CutP,
    pub client_write_cut: CutP,
    pub client_spurious_pending: u64,
    pub to_client_cap: usize,
    pub from_client_cap: usize,
    pub client_window: u32,
    pub client_conn_window: u32,
    pub client_max_frame: u32,
    pub tunnels: Vec<TunnelPlan>,
}

fn host_addr(i: usize) -> SocketAddr {
    SocketAddr::from(([93, 184, 216, 10 + i as u8], 443))
}

fn up_tag(seed: u64, i: usize) -> u64 {
    seed ^ 0x5555_0000 ^ ((i as u64) << 8)
}

fn down_tag(seed: u64, i: usize) -> u64 {
    seed ^ 0xaaaa_0000 ^ ((i as u64) << 8) ^ 1
}

fn draw_flow(rng: &mut Rng, max_len: u64, gap_cap_us: u64) -> Flow {
    let len = match rng.below(10) {
        0 => 0,
        1 => rng.range(1, 16),
        _ => rng.size(1, max_len),
    };
    let piece = match rng.below(6) {
        0 => CutP::fixed(1 + rng.usize_below(3)),
        1 => CutP::all(),
        _ => CutP::draw(rng, 64 * 1024),
    };
    // keep the number of pieces per run bounded
    let small = match piece.kind {
        1 => piece.a < 64,
        2 => piece.b < 64,
        _ => false,
    };
    let len = if small { len.min(8 * 1024) } else { len };
    Flow {
        len,
        piece,
        gap_us_max: if rng.chance(1, 2) { 0 } else { rng.size(1, gap_cap_us.max(1)) },
        gap_every: 1 + rng.below(8) as u32,
        start_delay_us: if rng.chance(1, 3) { rng.size(1, gap_cap_us.max(1)) } else { 0 },
        fin: true,
        empty_frame_every: if rng.chance(1, 6) { 1 + rng.below(5) as u32 } else { 0 },
    }
}

fn draw_reader(rng: &mut Rng, gap_cap_us: u64, len: u64, timer_mode: bool) -> Reader {
    Reader {
        max: match rng.below(4) {
            0 if len <= 8 * 1024 => 1 + rng.usize_below(16),
            0 | 1 => rng.size(256, 4096) as usize,
            _ => 64 * 1024,
        },
        // with a small idle time-out the readers are prompt (apart from one short stall):
        // otherwise draining what is buffered towards a slow reader after the last byte
        // takes longer than the time-out and the timer closes the tunnel legitimately
        gap_us_max: if timer_mode || rng.chance(2, 3) { 0 } else { rng.size(1, gap_cap_us.max(1)) },
        stall: if rng.chance(1, 4) && len > 0 {
            Some((rng.below(len), rng.size(1, gap_cap_us.max(1))))
        } else {
            None
        },
    }
}

impl Scenario for Relay {
    fn name(&self) -> &'static str {
        "relay"
    }

    fn budget(&self, tier: Tier) -> u64 {
        match tier {
            Tier::Quick => 6_000,
            Tier::Thorough => 120_000,
        }
    }

    fn generate(&self, seed: u64, index: u64, tier: Tier) -> Value {
        let mut rng = Rng::new(seed).fork(&format!("relay{}", index));
        let h2 = rng.chance(3, 5);
        // swarm: each run enables its own subset of dimensions
        let timer_mode = rng.chance(1, 3);
        let with_fault = rng.chance(1, 3);
        let tcp_timeout_us = if timer_mode {
            rng.size(20_000, 2_000_000) + FRACTION_US
        } else {
            604_800_000_000 + FRACTION_US
        };
        // in timer mode every gap and stall stays below T/10 so that the idle timer may
        // cancel and restart the copy loops but may never legitimately close the tunnel
        let gap_cap = if timer_mode {
            tcp_timeout_us / 10
        } else {
            rng.size(1, 200_000)
        };
        let big = tier == Tier::Thorough && rng.chance(1, 100);
        let max_len = if big { 4 << 20 } else { 256 * 1024 };
        let n_tunnels = if h2 { 1 + rng.usize_below(3) } else { 1 };
        let mut tunnels = Vec::new();
        for _ in 0..n_tunnels {
            let up = draw_flow(&mut rng, max_len, gap_cap);
            let down = draw_flow(&mut rng, max_len, gap_cap);
            let fault = if !with_fault {
                FaultP::None
            } else {
                match rng.below(7) {
                    0 => FaultP::HostReadErr(rng.below(down.len + 1), rng.below(4) as u8),
                    1 => FaultP::HostWriteErr(rng.below(up.len + 1), rng.below(4) as u8),
                    2 => FaultP::HostFlushErr(rng.below(4) as u8),
                    3 => FaultP::HostShutdownErr(rng.below(4) as u8),
                    4 => FaultP::HostReset(rng.below(down.len + 1)),
                    _ => FaultP::ClientAbort(rng.below(up.len + 1)),
                }
            };
            tunnels.push(TunnelPlan {
                connect_delay_us: rng.size(1, 50_000),
                to_host_cap: rng.size(1, 256 * 1024) as usize,
                from_host_cap: rng.size(1, 256 * 1024) as usize,
                host_read_cut: CutP::draw(&mut rng, 64 * 1024),
                host_write_cut: CutP::draw(&mut rng, 64 * 1024),
                spurious_pending: if rng.chance(1, 3) { 2 + rng.below(6) } else { 0 },
                spurious_wouldblock: if rng.chance(1, 3) { 2 + rng.below(6) } else { 0 },
                client_reader: draw_reader(&mut rng, gap_cap, down.len, timer_mode),
                host_reader: draw_reader(&mut rng, gap_cap, up.len, timer_mode),
                client_release_every: if rng.chance(1, 2) { 1 } else { rng.size(1, 64 * 1024) },
                up,
                down,
                fault,
                client_closes_first: rng.chance(1, 2),
            });
        }
        let plan = RelayPlan {
            seed: rng.next_u64(),
            h2,
            tcp_timeout_us,
            h2_stream_window: if rng.chance(1, 2) { 128 * 1024 } else { rng.size(1024, 1 << 20) as u32 },
            h2_conn_window: if rng.chance(1, 2) { 8 << 20 } else { rng.size(65_535, 8 << 20) as u32 },
            h1_upload_buffer: if rng.chance(1, 2) { 32 * 1024 } else { rng.size(1, 64 * 1024) as usize },
            client_seg: CutP::draw(&mut rng, 16 * 1024),
            client_read_cut: CutP::draw(&mut rng, 16 * 1024),
            client_write_cut: CutP::draw(&mut rng, 16 * 1024),
            client_spurious_pending: if rng.chance(1, 3) { 2 + rng.below(6) } else { 0 },
            to_client_cap: rng.size(64, 256 * 1024) as usize,
            from_client_cap: rng.size(64, 256 * 1024) as usize,
            client_window: if rng.chance(1, 2) { 65_535 } else { rng.size(1, 1 << 20) as u32 },
            client_conn_window: if rng.chance(1, 2) { 1 << 20 } else { rng.size(65_535, 4 << 20) as u32 },
            client_max_frame: 16_384,
            tunnels,
        };
        let mut plan = plan;
        // a megabyte through a two-byte socket buffer is tens of millions of events and gigabytes
        // of trace for no new behaviour: a flow is at most 4000 fillings of the smallest buffer
        // on its way
        for t in plan.tunnels.iter_mut() {
            let up_cap = (t.to_host_cap.min(plan.from_client_cap) as u64).saturating_mul(4000);
            let down_cap = (t.from_host_cap.min(plan.to_client_cap) as u64).saturating_mul(4000);
            t.up.len = t.up.len.min(up_cap);
            t.down.len = t.down.len.min(down_cap);
            t.fault = match t.fault.clone() {
                FaultP::HostReadErr(at, k) => FaultP::HostReadErr(at.min(t.down.len), k),
                FaultP::HostWriteErr(at, k) => FaultP::HostWriteErr(at.min(t.up.len), k),
                FaultP::HostReset(at) => FaultP::HostReset(at.min(t.down.len)),
                FaultP::ClientAbort(at) => FaultP::ClientAbort(at.min(t.up.len)),
                x => x,
            };
        }
        to_plan(&plan)
    }

    fn execute(&self, plan: &Value) -> Outcome {
        let plan: RelayPlan = match from_plan(plan) {
            Ok(p) => p,
            Err(e) => return harness_error(e),
        };
        let p2 = plan.clone();
        let vcap = Duration::from_secs(3600 * 24 * 30);
        let (obs, rep) = sim::run(plan.seed, vcap, move || run_relay(p2));
        let mut out = Outcome::default();
        match obs {
            Some(obs) => judge(&plan, &obs, &mut out),
            None => {
                if rep.main_panicked {
                    // reported by sim::finish from the panic record
                } else {
                    out.inconclusive = true;
                }
            }
        }
        sim::finish(out, &rep)
    }
}

// ---------------------------------------------------------------------------------------
// observations
// ---------------------------------------------------------------------------------------

#[derive(Debug, Clone, PartialEq)]
pub enum EndKind {
    /// still open when the observation window closed
    Open,
    Clean,
    Reset(String),
}

#[derive(Debug, Clone)]
pub struct TunnelObs {
    pub status: Option<u16>,
    pub response_error: Option<String>,
    pub up_sent: u64,
    pub up_send_error: Option<String>,
    pub up_finished_clean: bool,
    pub client_rx: PatternCheck,
    pub client_end: EndKind,
    pub client_end_t: u64,
    /// the client received this many empty DATA frames in a row (tens of thousands: the
    /// endpoint's HTTP/2 layer is emitting them in a loop) and stopped reading
    pub empty_data_storm: u64,
    pub host_connected: bool,
    pub host_rx: PatternCheck,
    pub host_end: EndKind,
    pub host_tx_sent: u64,
    pub host_tx_error: bool,
    pub host_tx_finished_clean: bool,
    pub host_closed_by_endpoint: bool,
    pub host_conn_reset_by_host: bool,
    pub credit_overshoot: u64,
    pub client_aborted: bool,
    pub fault_fired: bool,
}

#[derive(Debug)]
pub struct RelayObs {
    pub tunnels: Vec<TunnelObs>,
    pub census_after_tunnels: world::Census,
    pub census_final: world::Census,
    pub session_ended: bool,
    pub setup_error: Option<String>,
}

type Shared<T> = Arc<Mutex<T>>;

fn new_obs(seed: u64, i: usize) -> TunnelObs {
    TunnelObs {
        status: None,
        response_error: None,
        up_sent: 0,
        up_send_error: None,
        up_finished_clean: false,
        client_rx: PatternCheck::new(down_tag(seed, i)),
        client_end: EndKind::Open,
        client_end_t: 0,
        empty_data_storm: 0,
        host_connected: false,
        host_rx: PatternCheck::new(up_tag(seed, i)),
        host_end: EndKind::Open,
        host_tx_sent: 0,
        host_tx_error: false,
        host_tx_finished_clean: false,
        host_closed_by_endpoint: false,
        host_conn_reset_by_host: false,
        credit_overshoot: 0,
        client_aborted: false,
        fault_fired: false,
    }
}

// ---------------------------------------------------------------------------------------
// the run
// ---------------------------------------------------------------------------------------

async fn run_relay(plan: RelayPlan) -> RelayObs {
    let n = plan.tunnels.len();
    let obs: Vec<Shared<TunnelObs>> = (0..n)
        .map(|i| Arc::new(Mutex::new(new_obs(plan.seed, i))))
        .collect();
    let mut result = RelayObs {
        tunnels: vec![],
        census_after_tunnels: Default::default(),
        census_final: Default::default(),
        session_ended: false,
        setup_error: None,
    };

    let cfg = EpConfig {
        tcp_timeout_us: plan.tcp_timeout_us,
        h2_stream_window: plan.h2_stream_window,
        h2_conn_window: plan.h2_conn_window,
        h1_upload_buffer: plan.h1_upload_buffer,
        // client_listener_timeout bounds the wait for a session's NEXT request and takes the
        // tunnels in flight with it (DESIGN.md 13.3, observed): a slow plan must not run into it
        listener_timeout_us: 30 * 86_400_000_000 + endpoint::FRACTION_US,
        ..EpConfig::default()
    };
    let ep = match endpoint::build(&cfg, endpoint::registry(&cfg)) {
        Ok(e) => e,
        Err(e) => {
            result.setup_error = Some(e);
            return result;
        }
    };

    // destinations
    for (i, t) in plan.tunnels.iter().enumerate() {
        let mut faults = EpFaults {
            read_cut: t.host_read_cut.to_cut(),
            write_cut: t.host_write_cut.to_cut(),
            spurious_pending: t.spurious_pending,
            spurious_wouldblock: t.spurious_wouldblock,
            ..Default::default()
        };
        match &t.fault {
            FaultP::HostReadErr(at, k) => faults.read_err_at = Some((*at, error_kind(*k))),
            FaultP::HostWriteErr(at, k) => faults.write_err_at = Some((*at, error_kind(*k))),
            FaultP::HostFlushErr(k) => faults.flush_err = Some(error_kind(*k)),
            FaultP::HostShutdownErr(k) => faults.shutdown_err = Some(error_kind(*k)),
            _ => {}
        }
        world::with(|w| {
            w.hosts.insert(
                host_addr(i),
                HostPlan {
                    outcome: ConnectOutcome::Ok,
                    delay: Duration::from_micros(t.connect_delay_us),
                    to_host_cap: t.to_host_cap,
                    from_host_cap: t.from_host_cap,
                    faults,
                },
            )
        });
    }

    let host_conns: Vec<Shared<Option<PeerConn>>> =
        (0..n).map(|_| Arc::new(Mutex::new(None))).collect();
    // host actors: claim established connections in the order the endpoint makes them
    let host_tasks: Shared<Vec<tokio::task::JoinHandle<()>>> = Arc::new(Mutex::new(Vec::new()));
    let acceptor = {
        let plan = plan.clone();
        let obs = obs.clone();
        let host_tasks = host_tasks.clone();
        let host_conns = host_conns.clone();
        tokio::spawn(async move {
            loop {
                let (addr, conn) = world::next_established().await;
                let i = (0..plan.tunnels.len()).find(|i| host_addr(*i) == addr);
                if let Some(i) = i {
                    obs[i].lock().unwrap().host_connected = true;
                    *host_conns[i].lock().unwrap() = Some(conn.clone());
                    let h = tokio::spawn(host_actor(
                        plan.seed,
                        i,
                        plan.h2,
                        plan.tunnels[i].clone(),
                        conn,
                        obs[i].clone(),
                        settle(&plan),
                    ));
                    host_tasks.lock().unwrap().push(h);
                }
            }
        })
    };

    // the client connection and the endpoint's session
    let client_addr: SocketAddr = "203.0.113.7:51000".parse().unwrap();
    let (stream, peer) = world::client_conn(
        client_addr,
        plan.to_client_cap,
        plan.from_client_cap,
        EpFaults {
            read_cut: plan.client_read_cut.to_cut(),
            write_cut: plan.client_write_cut.to_cut(),
            spurious_pending: plan.client_spurious_pending,
            ..Default::default()
        },
    );
    let session = {
        let core = ep.core.clone();
        let h2 = plan.h2;
        tokio::spawn(async move {
            core.verif_serve_session(h2, stream, "vpn.example".into(), None)
                .await
        })
    };

    let rng = Rng::new(plan.seed);
    let mut tunnel_tasks = Vec::new();
    let mut h2_driver = None;
    if plan.h2 {
        let client = h2_connect(
            peer.clone(),
            H2Params {
                seg: plan.client_seg.to_cut(),
                initial_window: plan.client_window,
                conn_window: plan.client_conn_window,
                max_frame: plan.client_max_frame,
            },
            rng.fork("h2seg"),
        )
        .await;
        match client {
            Ok(c) => {
                h2_driver = Some(c.driver);
                for (i, t) in plan.tunnels.iter().enumerate() {
                    // a client that sits on more credit than its window holds deadlocks itself
                    let mut t = t.clone();
                    t.client_release_every = t
                        .client_release_every
                        .min(plan.client_window as u64 / 2)
                        .min(plan.client_conn_window as u64 / (2 * plan.tunnels.len() as u64))
                        .max(1);
                    tunnel_tasks.push(tokio::spawn(h2_tunnel(
                        plan.seed,
                        i,
                        t.clone(),
                        c.send.clone(),
                        obs[i].clone(),
                        plan.h2_stream_window,
                        host_conns[i].clone(),
                    )));
                }
                drop(c.send);
            }
            Err(e) => {
                result.setup_error = Some(e);
            }
        }
    } else {
        tunnel_tasks.push(tokio::spawn(h1_tunnel(
            plan.seed,
            plan.tunnels[0].clone(),
            peer.clone(),
            obs[0].clone(),
            plan.client_seg.clone(),
        )));
    }

    // every actor is bounded: the slowest legitimate schedule is far below this window
    let window = Duration::from_micros(observation_window_us(&plan));
    let _ = tokio::time::timeout(window, async {
        for t in tunnel_tasks.iter_mut() {
            let _ = t.await;
        }
    })
    .await;
    for t in &tunnel_tasks {
        t.abort();
    }
    // the destinations finish reading what is queued for them (bounded like the clients),
    // then watch for the endpoint releasing their sockets (teardown after a failure must
    // not need more than the settle time)
    let mut hts: Vec<_> = std::mem::take(&mut *host_tasks.lock().unwrap());
    let _ = tokio::time::timeout(window, async {
        for h in hts.iter_mut() {
            let _ = h.await;
        }
    })
    .await;
    for h in &hts {
        h.abort();
    }
    tokio::time::sleep(Duration::from_millis(1)).await;
    result.census_after_tunnels = world::with(|w| w.census.clone());

    // the client goes away; the session must end and release everything
    if let Some(d) = h2_driver {
        d.abort();
    }
    peer.shutdown_write();
    peer.stop_reading();
    tokio::time::sleep(settle(&plan)).await;
    result.session_ended = session.is_finished();
    session.abort();
    acceptor.abort();
    result.census_final = world::with(|w| w.census.clone());
    result.tunnels = obs.iter().map(|o| o.lock().unwrap().clone()).collect();
    result
}

fn flow_time_us(f: &Flow) -> u64 {
    // pieces are at least one byte; at most one gap per `gap_every` pieces
    let pieces = f.len.max(1);
    f.start_delay_us + (pieces / f.gap_every.max(1) as u64 + 1) * f.gap_us_max
}

fn reader_time_us(r: &Reader, len: u64) -> u64 {
    (len / r.max.max(1) as u64 + 2) * r.gap_us_max + r.stall.map(|s| s.1).unwrap_or(0)
}

fn observation_window_us(plan: &RelayPlan) -> u64 {
    let mut t = 10_000_000u64;
    for tp in &plan.tunnels {
        t += tp.connect_delay_us
            + flow_time_us(&tp.up)
            + flow_time_us(&tp.down)
            + reader_time_us(&tp.client_reader, tp.down.len)
            + reader_time_us(&tp.host_reader, tp.up.len);
    }
    t.saturating_mul(4)
}

fn settle(plan: &RelayPlan) -> Duration {
    // after a failure the idle timer is the backstop that releases a stuck direction
    let t = if plan.tcp_timeout_us < 10_000_000 {
        3 * plan.tcp_timeout_us + 1_000_000
    } else {
        5_000_000
    };
    Duration::from_micros(t)
}

async fn send_gap(rng: &mut Rng, f: &Flow, piece_no: u64) {
    if f.gap_us_max > 0 && piece_no % f.gap_every.max(1) as u64 == 0 {
        sleep_us(rng.range(0, f.gap_us_max)).await;
    }
}

fn piece_len(rng: &mut Rng, f: &Flow, remaining: u64) -> usize {
    let max = remaining.min(1 << 20) as usize;
    match f.piece.kind {
        1 => f.piece.a.clamp(1, max),
        2 => (rng.range(f.piece.a.max(1) as u64, f.piece.b.max(f.piece.a).max(1) as u64) as usize)
            .clamp(1, max),
        _ => max.min(64 * 1024),
    }
}

async fn reader_pause(rng: &mut Rng, r: &Reader, before: u64, after: u64) {
    if let Some((at, dur)) = r.stall {
        if before <= at && at < after {
            world::count("reader_stall");
            sleep_us(dur).await;
        }
    }
    // one pause per `max` bytes received, whatever the chunking of what arrives
    let m = r.max.max(1) as u64;
    if r.gap_us_max > 0 && before / m != after / m {
        sleep_us(rng.range(0, r.gap_us_max)).await;
    }
}

// ---------------------------------------------------------------------------------------
// destination
// ---------------------------------------------------------------------------------------

async fn host_actor(
    seed: u64,
    i: usize,
    h2: bool,
    t: TunnelPlan,
    conn: PeerConn,
    obs: Shared<TunnelObs>,
    settle: Duration,
) {
    let rng = Rng::new(seed).fork(&format!("host{}", i));
    let up_len = t.up.len;
    let all_received = Arc::new(tokio::sync::Notify::new());

    let writer = {
        let conn = conn.clone();
        let obs = obs.clone();
        let t = t.clone();
        let mut rng = rng.fork("w");
        let all_received = all_received.clone();
        async move {
            sleep_us(t.down.start_delay_us).await;
            let tag = down_tag(seed, i);
            let mut off = 0u64;
            let mut piece_no = 0u64;
            while off < t.down.len {
                if let FaultP::HostReset(at) = t.fault {
                    if off >= at {
                        break;
                    }
                }
                send_gap(&mut rng, &t.down, piece_no).await;
                let mut n = piece_len(&mut rng, &t.down, t.down.len - off);
                if let FaultP::HostReset(at) = t.fault {
                    if off + n as u64 > at {
                        n = (at - off) as usize;
                    }
                }
                if n > 0 {
                    let data = pattern(tag, off, n);
                    // counted as offered before it is written: the client may receive the
                    // first part of a piece before the whole piece is in
                    obs.lock().unwrap().host_tx_sent = off + n as u64;
                    if conn.write_all(&data).await.is_err() {
                        obs.lock().unwrap().host_tx_error = true;
                        return;
                    }
                    off += n as u64;
                }
                piece_no += 1;
                if let FaultP::HostReset(at) = t.fault {
                    if off >= at {
                        break;
                    }
                }
            }
            if let FaultP::HostReset(at) = t.fault {
                if off >= at.min(t.down.len) {
                    // let what was written travel first, then abort the connection
                    tokio::task::yield_now().await;
                    conn.reset();
                    let mut o = obs.lock().unwrap();
                    o.host_conn_reset_by_host = true;
                    o.fault_fired = true;
                    return;
                }
            }
            if t.down.fin {
                // HTTP/2: whoever is designated half-closes right after its last byte, the
                // other side once it has seen the end of what it receives. HTTP/1.1 has no
                // half-close the endpoint could honour, so there nobody ends its direction
                // before it has received everything.
                if !h2 || t.client_closes_first {
                    all_received.notified().await;
                }
                conn.shutdown_write();
                obs.lock().unwrap().host_tx_finished_clean = true;
            }
        }
    };

    let reader = {
        let conn = conn.clone();
        let obs = obs.clone();
        let t = t.clone();
        let mut rng = rng.fork("r");
        let all_received = all_received.clone();
        async move {
            let early = !h2 && !t.client_closes_first;
            if early && up_len == 0 {
                all_received.notify_one();
            }
            loop {
                let before = obs.lock().unwrap().host_rx.received;
                match conn.read(t.host_reader.max).await {
                    PeerRead::Data(d) => {
                        let after = {
                            let mut o = obs.lock().unwrap();
                            o.host_rx.feed(&d);
                            o.host_rx.received
                        };
                        if early && before < up_len && after >= up_len {
                            all_received.notify_one();
                        }
                        world::note(100 + i as u32, after, 0);
                        reader_pause(&mut rng, &t.host_reader, before, after).await;
                    }
                    PeerRead::Eof => {
                        obs.lock().unwrap().host_end = EndKind::Clean;
                        world::note(110 + i as u32, before, 0);
                        all_received.notify_one();
                        break;
                    }
                    PeerRead::Reset => {
                        obs.lock().unwrap().host_end = EndKind::Reset("rst".into());
                        world::note(120 + i as u32, before, 0);
                        all_received.notify_one();
                        break;
                    }
                }
            }
        }
    };

    tokio::join!(writer, reader);
    // watch for the endpoint releasing the socket: the countdown starts when the client's side
    // of the tunnel is over too (a slow client keeps the tunnel, and so the socket, alive long
    // after this destination has written and read everything)
    let mut deadline: Option<tokio::time::Instant> = None;
    loop {
        if conn.faults_fired() != 0 {
            obs.lock().unwrap().fault_fired = true;
        }
        if conn.endpoint_closed_both() {
            obs.lock().unwrap().host_closed_by_endpoint = true;
            break;
        }
        if deadline.is_none() {
            let o = obs.lock().unwrap();
            if o.client_end != EndKind::Open || o.fault_fired || o.empty_data_storm > 0 {
                deadline = Some(tokio::time::Instant::now() + settle);
            }
        }
        if let Some(d) = deadline {
            if tokio::time::Instant::now() >= d {
                break;
            }
        }
        sleep_us(50_000).await;
    }
}

// ---------------------------------------------------------------------------------------
// HTTP/2 client tunnel
// ---------------------------------------------------------------------------------------

async fn h2_tunnel(
    seed: u64,
    i: usize,
    t: TunnelPlan,
    mut send: h2::client::SendRequest<Bytes>,
    obs: Shared<TunnelObs>,
    ep_stream_window: u32,
    host_conn: Shared<Option<PeerConn>>,
) {
    let rng = Rng::new(seed).fork(&format!("client{}", i));
    let addr = host_addr(i);
    let req = http::Request::builder()
        .method(http::Method::CONNECT)
        .uri(addr.to_string())
        .header("proxy-authorization", basic_auth("u0", "p0-secret-password"))
        .header("user-agent", "sim/1.0")
        .body(())
        .unwrap();
    let ready = std::future::poll_fn(|cx| send.poll_ready(cx)).await;
    if let Err(e) = ready {
        obs.lock().unwrap().response_error = Some(format!("poll_ready: {}", e));
        return;
    }
    let (resp_fut, mut tx) = match send.send_request(req, false) {
        Ok(x) => x,
        Err(e) => {
            obs.lock().unwrap().response_error = Some(format!("send_request: {}", e));
            return;
        }
    };
    drop(send);
    let resp = match resp_fut.await {
        Ok(r) => r,
        Err(e) => {
            obs.lock().unwrap().response_error = Some(e.to_string());
            return;
        }
    };
    let status = resp.status().as_u16();
    obs.lock().unwrap().status = Some(status);
    world::note(200 + i as u32, status as u64, 0);
    if status != 200 {
        return;
    }
    let mut body = resp.into_body();
    let down_done = Arc::new(tokio::sync::Notify::new());

    let uploader = {
        let obs = obs.clone();
        let t = t.clone();
        let mut rng = rng.fork("u");
        let down_done = down_done.clone();
        async move {
            sleep_us(t.up.start_delay_us).await;
            let tag = up_tag(seed, i);
            let mut off = 0u64;
            let mut piece_no = 0u64;
            let bound = (ep_stream_window as u64).max(65_535);
            while off < t.up.len {
                if let FaultP::ClientAbort(at) = t.fault {
                    if off >= at {
                        break;
                    }
                }
                send_gap(&mut rng, &t.up, piece_no).await;
                let mut want = piece_len(&mut rng, &t.up, t.up.len - off);
                if let FaultP::ClientAbort(at) = t.fault {
                    if off + want as u64 > at {
                        want = (at - off) as usize;
                    }
                }
                piece_no += 1;
                if t.up.empty_frame_every > 0 && piece_no % t.up.empty_frame_every as u64 == 0 && off > 0 {
                    world::count("h2_empty_data_frame");
                    let _ = tx.send_data(Bytes::new(), false);
                }
                let mut sent_of_piece = 0usize;
                while sent_of_piece < want {
                    tx.reserve_capacity(want - sent_of_piece);
                    let cap = match std::future::poll_fn(|cx| tx.poll_capacity(cx)).await {
                        Some(Ok(c)) => c,
                        Some(Err(e)) => {
                            obs.lock().unwrap().up_send_error = Some(e.to_string());
                            return;
                        }
                        None => {
                            obs.lock().unwrap().up_send_error = Some("capacity: stream gone".into());
                            return;
                        }
                    };
                    let n = cap.min(want - sent_of_piece);
                    if n == 0 {
                        continue;
                    }
                    let data = pattern(tag, off, n);
                    if let Err(e) = tx.send_data(Bytes::from(data), false) {
                        obs.lock().unwrap().up_send_error = Some(e.to_string());
                        return;
                    }
                    off += n as u64;
                    sent_of_piece += n;
                    let mut o = obs.lock().unwrap();
                    o.up_sent = off;
                    // credit: what the client was allowed to send beyond what the endpoint
                    // has handed to the destination can never exceed one stream window
                    let forwarded = host_conn
                        .lock()
                        .unwrap()
                        .as_ref()
                        .map(|c| c.totals().0)
                        .unwrap_or(0);
                    let over = off.saturating_sub(forwarded).saturating_sub(bound);
                    if over > o.credit_overshoot {
                        o.credit_overshoot = over;
                    }
                }
            }
            if let FaultP::ClientAbort(at) = t.fault {
                if off >= at.min(t.up.len) {
                    tx.send_reset(h2::Reason::CANCEL);
                    let mut o = obs.lock().unwrap();
                    o.client_aborted = true;
                    o.fault_fired = true;
                    world::count("client_abort");
                    return;
                }
            }
            if t.up.fin {
                if !t.client_closes_first {
                    down_done.notified().await;
                }
                match tx.send_data(Bytes::new(), true) {
                    Ok(()) => obs.lock().unwrap().up_finished_clean = true,
                    Err(e) => obs.lock().unwrap().up_send_error = Some(e.to_string()),
                }
            }
        }
    };

    let downloader = {
        let obs = obs.clone();
        let t = t.clone();
        let mut rng = rng.fork("d");
        let down_done = down_done.clone();
        async move {
            let mut unreleased = 0u64;
            let mut empties = 0u64;
            loop {
                let before = obs.lock().unwrap().client_rx.received;
                match body.data().await {
                    Some(Ok(d)) => {
                        if d.is_empty() {
                            empties += 1;
                            if empties >= 20_000 {
                                obs.lock().unwrap().empty_data_storm = empties;
                                world::count("h2_empty_data_storm");
                                break;
                            }
                            // nothing was received: no pause, no credit, no note
                            continue;
                        }
                        empties = 0;
                        let after = {
                            let mut o = obs.lock().unwrap();
                            o.client_rx.feed(&d);
                            o.client_rx.received
                        };
                        world::note(300 + i as u32, after, 0);
                        reader_pause(&mut rng, &t.client_reader, before, after).await;
                        unreleased += d.len() as u64;
                        if unreleased >= t.client_release_every.max(1) {
                            let _ = body.flow_control().release_capacity(unreleased as usize);
                            unreleased = 0;
                        }
                    }
                    Some(Err(e)) => {
                        let mut o = obs.lock().unwrap();
                        o.client_end = EndKind::Reset(e.to_string());
                        o.client_end_t = world::now_us();
                        world::note(320 + i as u32, before, 0);
                        break;
                    }
                    None => {
                        let mut o = obs.lock().unwrap();
                        o.client_end = EndKind::Clean;
                        o.client_end_t = world::now_us();
                        world::note(310 + i as u32, before, 0);
                        break;
                    }
                }
                if unreleased > 0 && obs.lock().unwrap().client_rx.received >= t.down.len {
                    let _ = body.flow_control().release_capacity(unreleased as usize);
                    unreleased = 0;
                }
            }
            down_done.notify_one();
        }
    };

    tokio::join!(uploader, downloader);
}

// ---------------------------------------------------------------------------------------
// HTTP/1.1 client tunnel
// ---------------------------------------------------------------------------------------

async fn h1_tunnel(seed: u64, t: TunnelPlan, conn: PeerConn, obs: Shared<TunnelObs>, seg: CutP) {
    let i = 0usize;
    let rng = Rng::new(seed).fork("client0");
    let addr = host_addr(i);
    let head = format!(
        "CONNECT {a} HTTP/1.1\r\nHost: {a}\r\nProxy-Authorization: {auth}\r\nUser-Agent: sim/1.0\r\n\r\n",
        a = addr,
        auth = basic_auth("u0", "p0-secret-password")
    );
    // the head travels in one piece here: segmentation of heads belongs to C08's scenario
    if conn.write_all(head.as_bytes()).await.is_err() {
        obs.lock().unwrap().response_error = Some("write head".into());
        return;
    }
    let leftover = match h1_read_head(&conn).await {
        H1ReadHead::Head(h, rest) => {
            obs.lock().unwrap().status = Some(h.status);
            world::note(200, h.status as u64, 0);
            if h.status != 200 {
                return;
            }
            rest
        }
        H1ReadHead::Closed(_, _) => {
            obs.lock().unwrap().response_error = Some("closed before response".into());
            return;
        }
        H1ReadHead::Malformed(e, _) => {
            obs.lock().unwrap().response_error = Some(format!("malformed response: {}", e));
            return;
        }
    };
    let down_done = Arc::new(tokio::sync::Notify::new());

    let uploader = {
        let conn = conn.clone();
        let obs = obs.clone();
        let t = t.clone();
        let mut rng = rng.fork("u");
        let down_done = down_done.clone();
        let seg = seg.to_cut();
        async move {
            sleep_us(t.up.start_delay_us).await;
            let tag = up_tag(seed, i);
            let mut off = 0u64;
            let mut piece_no = 0u64;
            while off < t.up.len {
                if let FaultP::ClientAbort(at) = t.fault {
                    if off >= at {
                        break;
                    }
                }
                send_gap(&mut rng, &t.up, piece_no).await;
                let mut n = piece_len(&mut rng, &t.up, t.up.len - off);
                if let FaultP::ClientAbort(at) = t.fault {
                    if off + n as u64 > at {
                        n = (at - off) as usize;
                    }
                }
                piece_no += 1;
                if n == 0 {
                    break;
                }
                let data = pattern(tag, off, n);
                // TCP segmentation of the piece
                let mut o2 = 0;
                while o2 < n {
                    let k = match seg {
                        world::Cut::All => n - o2,
                        world::Cut::Fixed(k) => k.min(n - o2),
                        world::Cut::Random(a, b) => (rng.range(a as u64, b as u64) as usize).min(n - o2),
                    }
                    .max(1);
                    obs.lock().unwrap().up_sent = off + (o2 + k) as u64;
                    if conn.write_all(&data[o2..o2 + k]).await.is_err() {
                        obs.lock().unwrap().up_send_error = Some("connection closed".into());
                        return;
                    }
                    o2 += k;
                }
                off += n as u64;
            }
            if let FaultP::ClientAbort(at) = t.fault {
                if off >= at.min(t.up.len) {
                    tokio::task::yield_now().await;
                    conn.reset();
                    let mut o = obs.lock().unwrap();
                    o.client_aborted = true;
                    o.fault_fired = true;
                    world::count("client_abort");
                    return;
                }
            }
            if t.up.fin {
                // HTTP/1.1 has no half-close the endpoint could honour: the client ends the
                // connection only after it has received everything
                down_done.notified().await;
                conn.shutdown_write();
                obs.lock().unwrap().up_finished_clean = true;
            }
        }
    };

    let downloader = {
        let conn = conn.clone();
        let obs = obs.clone();
        let t = t.clone();
        let mut rng = rng.fork("d");
        let down_done = down_done.clone();
        async move {
            if !leftover.is_empty() {
                obs.lock().unwrap().client_rx.feed(&leftover);
            }
            let mut notified = false;
            loop {
                let before = obs.lock().unwrap().client_rx.received;
                if !notified && before >= t.down.len && t.client_closes_first {
                    // everything is in: the client may now end the connection
                    down_done.notify_one();
                    notified = true;
                }
                match conn.read(t.client_reader.max).await {
                    PeerRead::Data(d) => {
                        let after = {
                            let mut o = obs.lock().unwrap();
                            o.client_rx.feed(&d);
                            o.client_rx.received
                        };
                        world::note(300, after, 0);
                        reader_pause(&mut rng, &t.client_reader, before, after).await;
                    }
                    PeerRead::Eof => {
                        let mut o = obs.lock().unwrap();
                        o.client_end = EndKind::Clean;
                        o.client_end_t = world::now_us();
                        world::note(310, before, 0);
                        break;
                    }
                    PeerRead::Reset => {
                        let mut o = obs.lock().unwrap();
                        o.client_end = EndKind::Reset("rst".into());
                        o.client_end_t = world::now_us();
                        world::note(320, before, 0);
                        break;
                    }
                }
            }
            if !notified {
                down_done.notify_one();
            }
        }
    };

    tokio::join!(uploader, downloader);
}

// ---------------------------------------------------------------------------------------
// oracle
// ---------------------------------------------------------------------------------------

fn judge(plan: &RelayPlan, obs: &RelayObs, out: &mut Outcome) {
    if let Some(e) = &obs.setup_error {
        out.violate("HARNESS", "relay-setup", e.clone());
        return;
    }
    let proto = if plan.h2 { "h2" } else { "h1" };
    if let Some((i, o)) = obs.tunnels.iter().enumerate().find(|(_, o)| o.empty_data_storm > 0) {
        // The HTTP/2 layer of the endpoint emits empty DATA frames in a loop at one virtual
        // instant (the client stopped reading after 20 000 of them): the session is wedged and
        // what the other oracles would say about its tunnels follows from that.
        out.nontrivial = true;
        out.cell("h2:empty-data-storm");
        let what = format!(
            "tunnel {}: the client received {} empty DATA frames in a row after {} payload bytes (fault {:?})",
            i, o.empty_data_storm, o.client_rx.received, plan.tunnels[i].fault
        );
        out.violate("C09", "relay:h2:endless-empty-data-frames", what.clone());
        out.violate("C02", "relay:h2:session-wedged-by-empty-data-storm", what);
        return;
    }
    let timer_mode = plan.tcp_timeout_us < 10_000_000;
    let mut any_established = false;
    for (i, (t, o)) in plan.tunnels.iter().zip(&obs.tunnels).enumerate() {
        let faulty = t.fault != FaultP::None;
        // (0) the tunnel must be established: valid credentials, reachable global address
        match o.status {
            Some(200) => {}
            Some(s) => {
                out.violate(
                    "C02",
                    format!("relay:{}:status-{}", proto, s),
                    format!("tunnel {} to a reachable host answered {}", i, s),
                );
                continue;
            }
            None => {
                // a session killed by a sibling tunnel's fault is legitimate only if a
                // fault was planned somewhere
                let any_fault = plan.tunnels.iter().any(|t| t.fault != FaultP::None);
                if !any_fault {
                    out.violate(
                        "C02",
                        format!("relay:{}:no-response", proto),
                        format!("tunnel {}: no response ({:?})", i, o.response_error),
                    );
                }
                continue;
            }
        }
        any_established = true;
        out.cell(format!("{}:{}", proto, fault_name(&t.fault)));

        // (a) prefix invariant, both directions, always
        if let Some(at) = o.host_rx.mismatch_at {
            out.violate(
                "C02",
                format!("relay:{}:upload-corrupt", proto),
                format!("tunnel {}: destination received a wrong byte at offset {}", i, at),
            );
        }
        if o.host_rx.received > o.up_sent {
            out.violate(
                "C02",
                format!("relay:{}:upload-duplicated", proto),
                format!(
                    "tunnel {}: destination received {} bytes, client sent {}",
                    i, o.host_rx.received, o.up_sent
                ),
            );
        }
        if let Some(at) = o.client_rx.mismatch_at {
            out.violate(
                "C02",
                format!("relay:{}:download-corrupt", proto),
                format!("tunnel {}: client received a wrong byte at offset {}", i, at),
            );
        }
        if o.client_rx.received > o.host_tx_sent {
            out.violate(
                "C02",
                format!("relay:{}:download-duplicated", proto),
                format!(
                    "tunnel {}: client received {} bytes, destination sent {}",
                    i, o.client_rx.received, o.host_tx_sent
                ),
            );
        }

        // (d) receive-window credit equals bytes actually forwarded
        if o.credit_overshoot > 0 {
            out.violate(
                "C02",
                format!("relay:{}:credit-exceeds-forwarded", proto),
                format!(
                    "tunnel {}: client was allowed to send {} bytes more than stream window + bytes forwarded to the destination",
                    i, o.credit_overshoot
                ),
            );
        }

        // sibling faults on an HTTP/2 session do not excuse this tunnel: streams are independent
        if !faulty {
            // (b) completeness with cooperative peers
            let up_expected = t.up.len;
            let down_expected = t.down.len;
            if o.host_rx.received != up_expected {
                out.violate(
                    "C02",
                    format!("relay:{}:upload-incomplete", proto),
                    format!(
                        "tunnel {}: destination received {} of {} bytes (client sent {}, end seen by destination: {:?}, timer_mode={})",
                        i, o.host_rx.received, up_expected, o.up_sent, o.host_end, timer_mode
                    ),
                );
            }
            if o.client_rx.received != down_expected {
                out.violate(
                    "C02",
                    format!("relay:{}:download-incomplete", proto),
                    format!(
                        "tunnel {}: client received {} of {} bytes (destination sent {}, end seen by client: {:?}, timer_mode={})",
                        i, o.client_rx.received, down_expected, o.host_tx_sent, o.client_end, timer_mode
                    ),
                );
            }
            if t.up.fin && t.down.fin {
                if o.host_end != EndKind::Clean {
                    out.violate(
                        "C02",
                        format!("relay:{}:destination-end-{}", proto, end_name(&o.host_end)),
                        format!("tunnel {}: destination saw {:?} instead of a clean end", i, o.host_end),
                    );
                }
                if o.client_end != EndKind::Clean {
                    out.violate(
                        "C02",
                        format!("relay:{}:client-end-{}", proto, end_name(&o.client_end)),
                        format!("tunnel {}: client saw {:?} instead of a clean end", i, o.client_end),
                    );
                }
                if !o.host_closed_by_endpoint {
                    out.violate(
                        "C02",
                        format!("relay:{}:socket-not-released", proto),
                        format!("tunnel {}: outbound socket still open after both directions ended", i),
                    );
                }
                out.nontrivial |= t.up.len + t.down.len > 0;
            }
        } else {
            // (c) a failure tears the whole tunnel down, visibly
            if o.fault_fired {
                out.nontrivial = true;
                if !o.host_closed_by_endpoint && o.host_connected {
                    out.violate(
                        "C02",
                        format!("relay:{}:{}:socket-not-released", proto, fault_name(&t.fault)),
                        format!("tunnel {}: outbound socket still open after {:?}", i, t.fault),
                    );
                }
                if o.client_end == EndKind::Open && !o.client_aborted {
                    // with data of the download still undelivered the HTTP/2 layer is the one
                    // that sits on it (known finding); with everything delivered it is the
                    // endpoint that forgot to end or reset the stream
                    let stalled = plan.h2 && o.client_rx.received < o.host_tx_sent;
                    out.violate(
                        "C02",
                        format!(
                            "relay:{}:{}:client-left-open{}",
                            proto,
                            fault_name(&t.fault),
                            if stalled { ":download-stalled-in-h2" } else { "" }
                        ),
                        format!(
                            "tunnel {}: client stream still open after {:?} ({} of {} bytes the destination sent were delivered)",
                            i, t.fault, o.client_rx.received, o.host_tx_sent
                        ),
                    );
                }
                // a clean end must not hide missing bytes (HTTP/2 can tell, HTTP/1.1 cannot)
                if plan.h2
                    && o.client_end == EndKind::Clean
                    && o.client_rx.received < o.host_tx_sent
                {
                    out.violate(
                        "C02",
                        format!("relay:{}:{}:truncated-as-clean", proto, fault_name(&t.fault)),
                        format!(
                            "tunnel {}: client saw a clean end after {} of {} bytes the destination had sent",
                            i, o.client_rx.received, o.host_tx_sent
                        ),
                    );
                }
            }
        }
    }
    // the whole session: once the client is gone everything is released
    if any_established || obs.tunnels.iter().all(|o| o.status.is_some()) {
        if obs.census_final.tcp_out_open != 0 {
            out.violate(
                "C02",
                format!("relay:{}:leak-outbound-after-session", proto),
                format!("{} outbound sockets open after the client left", obs.census_final.tcp_out_open),
            );
        }
        if !obs.session_ended || obs.census_final.tcp_in_open != 0 {
            out.violate(
                "C02",
                format!("relay:{}:session-not-ended", proto),
                format!(
                    "session task ended={} client sockets open={}",
                    obs.session_ended, obs.census_final.tcp_in_open
                ),
            );
        }
    }
}

fn fault_name(f: &FaultP) -> &'static str {
    match f {
        FaultP::None => "none",
        FaultP::HostReadErr(..) => "host-read-error",
        FaultP::HostWriteErr(..) => "host-write-error",
        FaultP::HostFlushErr(..) => "host-flush-error",
        FaultP::HostShutdownErr(..) => "host-shutdown-error",
        FaultP::HostReset(..) => "host-reset",
        FaultP::ClientAbort(..) => "client-abort",
    }
}

fn end_name(e: &EndKind) -> &'static str {
    match e {
        EndKind::Open => "open",
        EndKind::Clean => "clean",
        EndKind::Reset(_) => "reset",
    }
}
