//! C06 (UDP multiplexer wire codec) and C07 (UDP flows): a `_udp2` stream through the real
//! `Tunnel` + `HttpDownstream` (DatagramDecoder/Encoder) + `http_udp_codec` + `udp_pipe` +
//! `udp_forwarder`, with the UDP sockets simulated.
//!
//! `udpcodec` stresses record sequences (valid and invalid) under segmentation;
//! `udpflows` stresses histories of flow operations, time and per-flow errors.

use crate::actors::*;
use crate::endpoint::{self, EpConfig, FRACTION_US};
use crate::prng::Rng;
use crate::scenario::*;
use crate::sim::{self, Outcome};
use crate::world::{self, EpFaults, PeerConn, PeerRead};
use bytes::Bytes;
use serde::{Deserialize, Serialize};
use serde_json::Value;
use std::collections::BTreeMap;
use std::net::{IpAddr, SocketAddr};
use std::sync::{Arc, Mutex};
use std::time::Duration;

pub struct Udp {
    pub flows_mode: bool,
}

#[derive(Clone, Debug, Serialize, Deserialize, PartialEq)]
pub enum RecKind {
    Valid,
    /// declared length below the fixed header (37): that many junk bytes follow
    ShortLength(u32),
    /// declared length beyond what a UDP payload allows
    TooLarge,
    /// application name that is not UTF-8
    BadName,
}

#[derive(Clone, Debug, Serialize, Deserialize)]
pub enum UOp {
    Rec { flow: usize, kind: RecKind, payload: usize, app: usize },
    /// the flow's destination answers
    Reply { flow: usize, len: usize },
    /// a datagram for the flow's socket from a host it is not connected to
    Unsolicited { flow: usize, len: usize },
    /// the next operation on the flow's socket reports this errno (ICMP unreachable etc.)
    SocketError { flow: usize, code: i32 },
    Advance { us: u64 },
    Scrape,
}

#[derive(Clone, Debug, Serialize, Deserialize)]
pub struct FlowP {
    pub src: String,
    pub dst: String,
    /// connecting a socket to this destination fails with this errno
    pub connect_errno: Option<i32>,
}

#[derive(Clone, Debug, Serialize, Deserialize)]
pub struct UPlan {
    pub seed: u64,
    pub h2: bool,
    pub udp_timeout_us: u64,
    pub flows: Vec<FlowP>,
    pub ops: Vec<UOp>,
    /// segmentation of each batch of consecutive records
    pub cuts: Vec<usize>,
    pub bytewise: bool,
    pub client_window: u32,
}

const LISTEN: &str = "198.51.100.1:443";
const METRICS: &str = "127.0.0.1:1987";

fn enc_ip(ip: IpAddr) -> [u8; 16] {
    match ip {
        IpAddr::V4(a) => {
            let mut b = [0u8; 16];
            b[12..].copy_from_slice(&a.octets());
            b
        }
        IpAddr::V6(a) => a.octets(),
    }
}

/// PROTOCOL.md 6.3, written from the document
pub fn encode_record(src: SocketAddr, dst: SocketAddr, app: &[u8], payload: &[u8], declared: Option<u32>) -> Vec<u8> {
    let len = 16 + 2 + 16 + 2 + 1 + app.len() + payload.len();
    let mut v = Vec::with_capacity(4 + len);
    v.extend_from_slice(&declared.unwrap_or(len as u32).to_be_bytes());
    v.extend_from_slice(&enc_ip(src.ip()));
    v.extend_from_slice(&src.port().to_be_bytes());
    v.extend_from_slice(&enc_ip(dst.ip()));
    v.extend_from_slice(&dst.port().to_be_bytes());
    v.push(app.len() as u8);
    v.extend_from_slice(app);
    v.extend_from_slice(payload);
    v
}

#[derive(Debug, Clone, PartialEq)]
pub struct Reply64 {
    pub src: SocketAddr,
    pub dst: SocketAddr,
    pub payload: Vec<u8>,
}

/// PROTOCOL.md 6.4 parser: big-endian length excluding itself, two 16+2 byte endpoints
pub fn parse_replies(buf: &[u8]) -> Result<(Vec<Reply64>, usize), String> {
    let mut out = Vec::new();
    let mut i = 0;
    loop {
        if buf.len() < i + 4 {
            return Ok((out, i));
        }
        let len = u32::from_be_bytes([buf[i], buf[i + 1], buf[i + 2], buf[i + 3]]) as usize;
        if len < 36 {
            return Err(format!("record length {} below the fixed header at offset {}", len, i));
        }
        // (36 bytes of header in front of at most 65 507 bytes of payload)
        if len > 36 + 65_507 {
            return Err(format!("record length {} beyond any UDP datagram at offset {}", len, i));
        }
        if buf.len() < i + 4 + len {
            return Ok((out, i));
        }
        let r = &buf[i + 4..i + 4 + len];
        let ip = |b: &[u8]| -> Result<IpAddr, String> {
            if b[..12].iter().all(|x| *x == 0) {
                Ok(IpAddr::from([b[12], b[13], b[14], b[15]]))
            } else {
                let mut a = [0u8; 16];
                a.copy_from_slice(b);
                Ok(IpAddr::from(a))
            }
        };
        let src = SocketAddr::new(ip(&r[0..16])?, u16::from_be_bytes([r[16], r[17]]));
        let dst = SocketAddr::new(ip(&r[18..34])?, u16::from_be_bytes([r[34], r[35]]));
        out.push(Reply64 {
            src,
            dst,
            payload: r[36..].to_vec(),
        });
        i += 4 + len;
    }
}

const APPS: &[&[u8]] = &[b"", b"app", b"com.example.browser", b"\xd0\xbf\xd1\x80\xd0\xb8\xd0\xbb"];

fn draw_flows(rng: &mut Rng, n: usize, errors: bool) -> Vec<FlowP> {
    (0..n)
        .map(|i| {
            let v6 = rng.chance(1, 4);
            let dns = rng.chance(1, 4);
            let port = if dns { 53 } else { 4000 + i as u16 };
            let (src, dst) = if v6 {
                // shapes of IPv6 address that 6.3 / 6.4 must carry as their 16 octets: ordinary,
                // IPv4-mapped (::ffff:a.b.c.d; not an IPv4 address on this wire), full-width
                let s = match rng.below(4) {
                    0 => format!("[::ffff:10.8.0.{}]:{}", 2 + i, 50_000 + i),
                    1 => format!("[fd00:{:x}:{:x}:{:x}:{:x}:{:x}:{:x}:{:x}]:{}", rng.below(0xffff) + 1, rng.below(0x10000), rng.below(0x10000), rng.below(0x10000), rng.below(0x10000), rng.below(0x10000), 10 + i, 50_000 + i),
                    _ => format!("[fd00::{:x}]:{}", 10 + i, 50_000 + i),
                };
                let d = match rng.below(4) {
                    0 => format!("[::ffff:93.184.218.{}]:{}", 1 + i, port),
                    1 => format!("[2606:4700:{:x}:{:x}:{:x}:{:x}:{:x}:{:x}]:{}", rng.below(0x10000), rng.below(0x10000), rng.below(0x10000), rng.below(0x10000), rng.below(0x10000), 0x1111 + i, port),
                    _ => format!("[2606:4700::{:x}]:{}", 0x1111 + i, port),
                };
                (s, d)
            } else {
                (format!("10.8.0.{}:{}", 2 + i, 50_000 + i), format!("93.184.218.{}:{}", 1 + i, port))
            };
            FlowP {
                src,
                dst,
                connect_errno: if errors && rng.chance(1, 6) {
                    Some(*rng.pick(&[libc::ENETUNREACH, libc::EACCES, libc::EADDRNOTAVAIL]))
                } else {
                    None
                },
            }
        })
        .collect()
}

impl Scenario for Udp {
    fn name(&self) -> &'static str {
        if self.flows_mode {
            "udpflows"
        } else {
            "udpcodec"
        }
    }

    fn budget(&self, tier: Tier) -> u64 {
        match tier {
            Tier::Quick => 60_000,
            Tier::Thorough => 4_000_000,
        }
    }

    fn generate(&self, seed: u64, index: u64, tier: Tier) -> Value {
        let mut rng = Rng::new(seed).fork(&format!("{}{}", self.name(), index));
        let h2 = rng.chance(2, 3);
        let mut ops = Vec::new();
        let t = rng.size(200_000, 20_000_000) + FRACTION_US;
        let flows;
        if self.flows_mode {
            let nf = 1 + rng.usize_below(4);
            flows = draw_flows(&mut rng, nf, true);
            let n = 3 + rng.usize_below(38);
            for _ in 0..n {
                let f = rng.usize_below(flows.len());
                match rng.below(12) {
                    0..=4 => {
                        // sometimes a burst on one pair (several queries in flight)
                        let burst = if rng.chance(1, 4) { 2 + rng.usize_below(3) } else { 1 };
                        for _ in 0..burst {
                            ops.push(UOp::Rec { flow: f, kind: RecKind::Valid, payload: rng.size(1, 1400) as usize, app: rng.usize_below(APPS.len()) });
                        }
                    }
                    5 | 6 => {
                        // one reply in ten is an empty datagram (legal UDP; no extra draw, so
                        // that the other dimensions of earlier plans stay what they were)
                        let len = rng.size(1, 1400) as usize;
                        ops.push(UOp::Reply { flow: f, len: if len % 10 == 0 { 0 } else { len } });
                    }
                    7 => ops.push(UOp::Unsolicited { flow: f, len: rng.size(1, 200) as usize }),
                    8 => ops.push(UOp::SocketError { flow: f, code: *rng.pick(&[libc::ECONNREFUSED, libc::EHOSTUNREACH, libc::ENETDOWN]) }),
                    9 | 10 => {
                        let pct = *rng.pick(&[10u64, 30, 60, 90, 101, 110, 126, 150, 260]);
                        ops.push(UOp::Advance { us: t * pct / 100 });
                    }
                    _ => ops.push(UOp::Scrape),
                }
            }
            ops.push(UOp::Scrape);
        } else {
            let nf = 1 + rng.usize_below(3);
            flows = draw_flows(&mut rng, nf, false);
            let n = 1 + rng.usize_below(8);
            let big = rng.chance(1, if tier == Tier::Thorough { 50 } else { 25 });
            for _ in 0..n {
                let f = rng.usize_below(flows.len());
                let kind = match rng.below(10) {
                    0 => RecKind::ShortLength(rng.below(37) as u32),
                    1 => RecKind::TooLarge,
                    2 => RecKind::BadName,
                    _ => RecKind::Valid,
                };
                let payload = match rng.below(5) {
                    0 => 0,
                    1 => 1 + rng.usize_below(8),
                    // up to the largest payload a UDP datagram can carry (65 507), with the
                    // sizes around the arithmetic of the decoder's limit among them
                    _ if big => match rng.below(3) {
                        0 => *rng.pick(&[65_507usize, 65_506, 65_500, 65_471, 65_470, 65_435, 65_434, 65_433, 65_426, 64_924, 64_925]),
                        1 => 65_507 - rng.usize_below(600),
                        _ => rng.size(1, 65_507) as usize,
                    },
                    _ => rng.size(1, 2048) as usize,
                };
                ops.push(UOp::Rec { flow: f, kind, payload, app: rng.usize_below(APPS.len()) });
                if rng.chance(1, 5) {
                    // (now and then a reply as large as a UDP datagram gets)
                    let len = if rng.chance(1, 12) {
                        *rng.pick(&[65_507usize, 65_499, 65_473, 65_472, 65_471, 65_000, 40_000])
                    } else {
                        rng.size(0, 2048) as usize
                    };
                    ops.push(UOp::Reply { flow: f, len });
                }
            }
            // sentinel: a valid record with payload, so that a preceding zero-payload record
            // (emitted only when the next byte arrives) is flushed
            ops.push(UOp::Rec { flow: 0, kind: RecKind::Valid, payload: 3, app: 1 });
        }
        let n_cuts = match rng.below(6) {
            0 => 0,
            1 => 1,
            2 => 2,
            3 => 3,
            _ => 1 + rng.usize_below(10),
        };
        let big_run = ops.iter().any(|o| matches!(o, UOp::Rec { payload, .. } if *payload > 60_000));
        let plan = UPlan {
            seed: rng.next_u64(),
            h2,
            udp_timeout_us: t,
            flows,
            ops,
            cuts: (0..n_cuts).map(|_| 1 + rng.usize_below(120)).collect(),
            // (byte-at-a-time delivery of 65 KB records costs seconds per run: small records only)
            bytewise: !self.flows_mode && !big_run && rng.chance(1, 8),
            client_window: 1 << 20,
        };
        to_plan(&plan)
    }

    fn execute(&self, plan: &Value) -> Outcome {
        let plan: UPlan = match from_plan(plan) {
            Ok(p) => p,
            Err(e) => return harness_error(e),
        };
        let p2 = plan.clone();
        let flows_mode = self.flows_mode;
        let (obs, rep) = sim::run(plan.seed, Duration::from_secs(3600 * 24 * 30), move || run(p2, flows_mode));
        let mut out = Outcome::default();
        match obs {
            Some(obs) => judge(&plan, &obs, self.flows_mode, &mut out),
            None => {
                if !rep.main_panicked {
                    out.inconclusive = true;
                }
            }
        }
        sim::finish(out, &rep)
    }
}

#[derive(Debug, Clone)]
pub struct SentRec {
    pub op: usize,
    pub flow: usize,
    pub valid: bool,
    pub payload: Vec<u8>,
    pub t_us: u64,
}

#[derive(Debug, Clone)]
pub struct Snapshot {
    pub op: usize,
    pub t_us: u64,
    pub open_socks: Vec<u32>,
    /// open sockets right after the scrape (the expiry tick may fall inside it)
    pub open_after: usize,
    pub gauge: Option<f64>,
    /// outbound_tcp_sockets as scraped (no TCP tunnel exists in this scenario)
    pub tcp_gauge: Option<f64>,
    pub scrape_error: Option<String>,
    /// inbound_traffic_bytes / outbound_traffic_bytes summed over their labels, as scraped
    pub traffic: Option<(f64, f64)>,
    /// payload bytes of the datagrams that had left for their destinations / that the client
    /// had received, when the scrape was made
    pub moved: (u64, u64),
}

#[derive(Debug, Default, Clone)]
pub struct Obs {
    pub setup_error: Option<String>,
    pub status: Option<u16>,
    pub sent: Vec<SentRec>,
    pub replies_injected: Vec<(usize, usize, Vec<u8>, bool, u64)>, // (op, flow, payload, delivered_to_socket, t)
    pub client_rx: Vec<u8>,
    pub stream_end: Option<(u64, bool)>,
    pub snapshots: Vec<Snapshot>,
    pub udp_sent: Vec<world::UdpSent>,
    pub udp_binds: Vec<(u32, SocketAddr, u64)>,
    pub errors_injected: Vec<(usize, usize, u64)>,
    pub t_start: u64,
    pub t_end: u64,
    pub still_open_at_end: bool,
}

type Shared<T> = Arc<Mutex<T>>;

enum ClientTx {
    H2(h2::SendStream<Bytes>),
    H1(PeerConn),
}

impl ClientTx {
    async fn send(&mut self, data: &[u8]) -> bool {
        match self {
            ClientTx::H2(tx) => {
                let mut off = 0;
                while off < data.len() {
                    tx.reserve_capacity(data.len() - off);
                    match std::future::poll_fn(|cx| tx.poll_capacity(cx)).await {
                        Some(Ok(n)) => {
                            let n = n.min(data.len() - off);
                            if tx.send_data(Bytes::copy_from_slice(&data[off..off + n]), false).is_err() {
                                return false;
                            }
                            off += n;
                        }
                        _ => return false,
                    }
                }
                true
            }
            ClientTx::H1(c) => c.write_all(data).await.is_ok(),
        }
    }
}

async fn run(plan: UPlan, flows_mode: bool) -> Obs {
    let obs: Shared<Obs> = Arc::new(Mutex::new(Obs::default()));
    let cfg = EpConfig {
        listen: LISTEN.parse().unwrap(),
        udp_timeout_us: plan.udp_timeout_us,
        metrics: if flows_mode { Some((METRICS.parse().unwrap(), 3_000_000 + FRACTION_US)) } else { None },
        ..EpConfig::default()
    };
    let ep = match endpoint::build(&cfg, endpoint::registry(&cfg)) {
        Ok(e) => e,
        Err(e) => {
            obs.lock().unwrap().setup_error = Some(e);
            return obs.lock().unwrap().clone();
        }
    };
    let listening = if flows_mode { Some(crate::patht::start(&ep, cfg.listen).await) } else { None };
    let flows: Vec<(SocketAddr, SocketAddr)> = plan
        .flows
        .iter()
        .map(|f| (f.src.parse().unwrap(), f.dst.parse().unwrap()))
        .collect();
    world::with(|w| {
        for (f, (_, dst)) in plan.flows.iter().zip(&flows) {
            if let Some(code) = f.connect_errno {
                w.udp_connect_errors.insert(*dst, code);
            }
        }
    });

    let (stream, peer) = world::client_conn("203.0.113.60:41000".parse().unwrap(), 1 << 20, 1 << 20, EpFaults::default());
    let session = {
        let core = ep.core.clone();
        let h2 = plan.h2;
        tokio::spawn(async move { core.verif_serve_session(h2, stream, "vpn.example".into(), None).await })
    };
    // open the multiplexer stream
    let mut tx;
    let reader;
    let mut _keep = None;
    if plan.h2 {
        let c = match h2_connect(peer.clone(), H2Params { initial_window: plan.client_window, conn_window: 8 << 20, ..Default::default() }, Rng::new(plan.seed)).await {
            Ok(c) => c,
            Err(e) => {
                obs.lock().unwrap().setup_error = Some(e);
                return obs.lock().unwrap().clone();
            }
        };
        let mut send = c.send;
        let req = http::Request::builder()
            .method("CONNECT")
            .uri("_udp2")
            .header("proxy-authorization", basic_auth("u0", "p0-secret-password"))
            .header("user-agent", "sim _udp2")
            .body(())
            .unwrap();
        let _ = std::future::poll_fn(|cx| send.poll_ready(cx)).await;
        let (resp, stx) = match send.send_request(req, false) {
            Ok(x) => x,
            Err(e) => {
                obs.lock().unwrap().setup_error = Some(e.to_string());
                return obs.lock().unwrap().clone();
            }
        };
        let resp = match resp.await {
            Ok(r) => r,
            Err(e) => {
                obs.lock().unwrap().setup_error = Some(format!("_udp2 response: {}", e));
                return obs.lock().unwrap().clone();
            }
        };
        obs.lock().unwrap().status = Some(resp.status().as_u16());
        let mut body = resp.into_body();
        let o2 = obs.clone();
        reader = tokio::spawn(async move {
            loop {
                match body.data().await {
                    Some(Ok(d)) => {
                        let _ = body.flow_control().release_capacity(d.len());
                        o2.lock().unwrap().client_rx.extend_from_slice(&d);
                    }
                    Some(Err(_)) => {
                        o2.lock().unwrap().stream_end = Some((world::now_us(), false));
                        break;
                    }
                    None => {
                        o2.lock().unwrap().stream_end = Some((world::now_us(), true));
                        break;
                    }
                }
            }
        });
        tx = ClientTx::H2(stx);
        _keep = Some((send, c.driver));
    } else {
        let head = format!(
            "CONNECT _udp2 HTTP/1.1\r\nHost: _udp2\r\nProxy-Authorization: {}\r\n\r\n",
            basic_auth("u0", "p0-secret-password")
        );
        let _ = peer.write_all(head.as_bytes()).await;
        match h1_read_head(&peer).await {
            H1ReadHead::Head(h, rest) => {
                let mut o = obs.lock().unwrap();
                o.status = Some(h.status);
                o.client_rx = rest;
            }
            _ => {
                obs.lock().unwrap().setup_error = Some("no response to CONNECT _udp2".into());
                return obs.lock().unwrap().clone();
            }
        }
        let o2 = obs.clone();
        let p2 = peer.clone();
        reader = tokio::spawn(async move {
            loop {
                match p2.read(64 * 1024).await {
                    PeerRead::Data(d) => o2.lock().unwrap().client_rx.extend_from_slice(&d),
                    PeerRead::Eof => {
                        o2.lock().unwrap().stream_end = Some((world::now_us(), true));
                        break;
                    }
                    PeerRead::Reset => {
                        o2.lock().unwrap().stream_end = Some((world::now_us(), false));
                        break;
                    }
                }
            }
        });
        tx = ClientTx::H1(peer.clone());
    }
    if obs.lock().unwrap().status != Some(200) {
        return obs.lock().unwrap().clone();
    }
    obs.lock().unwrap().t_start = world::now_us();

    let mut rng = Rng::new(plan.seed ^ 0xabc);
    // the socket currently serving each flow, as the world sees it: the latest socket that
    // sent to the flow's destination... flows have distinct destinations
    let sock_of = |flow: usize| -> Option<u32> {
        let dst = flows[flow].1;
        world::with(|w| w.udp_sent.iter().rev().find(|s| s.dst == dst).map(|s| s.sock))
    };
    let mut k = 0;
    while k < plan.ops.len() {
        match &plan.ops[k] {
            UOp::Rec { .. } => {
                // a batch of consecutive records, concatenated and cut as planned
                let mut wire = Vec::new();
                let mut j = k;
                while j < plan.ops.len() {
                    if let UOp::Rec { flow, kind, payload, app } = &plan.ops[j] {
                        let (src, dst) = flows[*flow % flows.len()];
                        let pl = pattern(plan.seed ^ (j as u64) << 8, 0, *payload);
                        let app_b: Vec<u8> = APPS[*app % APPS.len()].to_vec();
                        let (bytes, valid) = match kind {
                            RecKind::Valid => (encode_record(src, dst, &app_b, &pl, None), true),
                            RecKind::ShortLength(n) => {
                                let mut v = n.to_be_bytes().to_vec();
                                v.extend(pattern(7, 0, *n as usize));
                                (v, false)
                            }
                            RecKind::TooLarge => {
                                // beyond what any UDP datagram carries (65 507 over IPv4; the
                                // endpoint's own constant is 65 508, which is left alone)
                                let big = pattern(9, 0, 65_509 + (j * 977) % 3_000);
                                (encode_record(src, dst, &app_b, &big, None), false)
                            }
                            RecKind::BadName => (encode_record(src, dst, &[0xff, 0xfe, 0xc3], &pl, None), false),
                        };
                        wire.extend_from_slice(&bytes);
                        obs.lock().unwrap().sent.push(SentRec {
                            op: j,
                            flow: *flow % flows.len(),
                            valid,
                            payload: pl,
                            t_us: world::now_us(),
                        });
                        j += 1;
                    } else {
                        break;
                    }
                }
                let mut off = 0;
                let mut c = 0;
                while off < wire.len() {
                    let n = if plan.bytewise && wire.len() < 3000 {
                        1
                    } else {
                        plan.cuts.get(c).copied().unwrap_or(wire.len() - off)
                    }
                    .clamp(1, wire.len() - off);
                    if !tx.send(&wire[off..off + n]).await {
                        break;
                    }
                    off += n;
                    c += 1;
                    if c <= plan.cuts.len() || plan.bytewise {
                        // let the piece travel on its own
                        sleep_us(if plan.bytewise { 0 } else { rng.range(0, 1500) }).await;
                        tokio::task::yield_now().await;
                    }
                }
                sleep_us(2_000).await;
                k = j;
                continue;
            }
            UOp::Reply { flow, len } => {
                let f = *flow % flows.len();
                let pl = pattern(plan.seed ^ 0x77 ^ (k as u64) << 8, 0, *len);
                let delivered = match sock_of(f) {
                    Some(s) => world::udp_deliver(s, flows[f].1, &pl),
                    None => false,
                };
                obs.lock().unwrap().replies_injected.push((k, f, pl, delivered, world::now_us()));
                sleep_us(2_000).await;
            }
            UOp::Unsolicited { flow, len } => {
                let f = *flow % flows.len();
                let pl = pattern(plan.seed ^ 0x99 ^ (k as u64) << 8, 0, *len);
                if let Some(s) = sock_of(f) {
                    let other: SocketAddr = "192.0.2.66:6666".parse().unwrap();
                    let _ = world::udp_deliver(s, other, &pl);
                }
                sleep_us(2_000).await;
            }
            UOp::SocketError { flow, code } => {
                let f = *flow % flows.len();
                if let Some(s) = sock_of(f) {
                    if world::udp_is_open(s) && world::udp_inject_error(s, *code) {
                        obs.lock().unwrap().errors_injected.push((k, f, world::now_us()));
                        world::count("udp_async_error_injected");
                    }
                }
                sleep_us(2_000).await;
            }
            UOp::Advance { us } => sleep_us(*us).await,
            UOp::Scrape => {
                let t_snap = world::now_us();
                let open: Vec<u32> = world::with(|w| w.udp_binds.iter().map(|b| b.0).collect::<Vec<_>>())
                    .into_iter()
                    .filter(|s| world::udp_is_open(*s))
                    .collect();
                let mut tcp_gauge = None;
                let mut traffic = None;
                let moved = {
                    let up: u64 = world::with(|w| w.udp_sent.iter().map(|d| d.payload.len() as u64).sum());
                    let down: u64 = parse_replies(&obs.lock().unwrap().client_rx).map(|(r, _)| r.iter().map(|x| x.payload.len() as u64).sum()).unwrap_or(0);
                    (up, down)
                };
                let (gauge, err) = if flows_mode {
                    let (status, text, e) = super::metrics::http_get("/metrics").await;
                    let g = text
                        .lines()
                        .find(|l| l.starts_with("outbound_udp_sockets "))
                        .and_then(|l| l.rsplit(' ').next())
                        .and_then(|v| v.parse::<f64>().ok());
                    tcp_gauge = text
                        .lines()
                        .find(|l| l.starts_with("outbound_tcp_sockets "))
                        .and_then(|l| l.rsplit(' ').next())
                        .and_then(|v| v.parse::<f64>().ok());
                    let sum = |name: &str| -> f64 {
                        text.lines()
                            .filter(|l| l.starts_with(name) && !l.starts_with('#'))
                            .filter_map(|l| l.rsplit(' ').next().and_then(|v| v.parse::<f64>().ok()))
                            .sum()
                    };
                    traffic = Some((sum("inbound_traffic_bytes"), sum("outbound_traffic_bytes")));
                    (g, if status == Some(200) { None } else { Some(format!("{:?} {:?}", status, e)) })
                } else {
                    (None, None)
                };
                let open_after = world::with(|w| w.census.udp_open) as usize;
                // keep later operations out of this snapshot's millisecond
                sleep_us(2_000).await;
                obs.lock().unwrap().snapshots.push(Snapshot {
                    op: k,
                    t_us: t_snap,
                    open_socks: open,
                    open_after,
                    gauge,
                    tcp_gauge,
                    scrape_error: err,
                    traffic,
                    moved,
                });
            }
        }
        k += 1;
    }
    sleep_us(20_000).await;
    {
        let mut o = obs.lock().unwrap();
        o.t_end = world::now_us();
        o.still_open_at_end = o.stream_end.is_none();
        world::with(|w| {
            o.udp_sent = w.udp_sent.clone();
            o.udp_binds = w.udp_binds.clone();
        });
    }
    drop(tx);
    peer.shutdown_write();
    peer.stop_reading();
    sleep_us(1_000_000).await;
    reader.abort();
    session.abort();
    if let Some(l) = listening {
        l.task.abort();
    }
    let o = obs.lock().unwrap().clone();
    o
}

/// What happened on one pair, in time order: (instant, is_reply). Replies count when the
/// world could hand them to the flow's socket.
fn flow_events(o: &Obs, f: usize, dst: SocketAddr) -> Vec<(u64, bool)> {
    let mut v: Vec<(u64, bool)> = o.udp_sent.iter().filter(|s| s.dst == dst).map(|s| (s.t_us, false)).collect();
    v.extend(o.replies_injected.iter().filter(|r| r.1 == f && r.3).map(|r| (r.4, true)));
    v.sort();
    v
}

/// Reference flow table for one pair: must the socket be open just before instant `at`?
/// Events are (time, is_reply). Some(true) = open, Some(false) = closed, None = the expiry
/// latitude [T, T + T/4] (or an earlier undecided instant) leaves it open.
fn flow_expected(events: &[(u64, bool)], is_dns: bool, t: u64, at: u64) -> Option<bool> {
    let eps = 5_000u64;
    let mut alive = false;
    let mut last = 0u64;
    let mut pending = 0i64;
    // the flow may or may not have expired inside the latitude
    let mut unsure = false;
    // port 53 only: the number of unanswered queries is not known (an incarnation may have
    // been replaced inside the latitude), and an answer arrived since: liveness unknown
    let mut pending_unknown = false;
    let mut limbo = false;
    for (te, is_reply) in events.iter().filter(|e| e.0 < at).chain(std::iter::once(&(at, true)).filter(|_| false)) {
        // time passes up to this event
        if alive || limbo {
            let idle = *te - last;
            if idle > t + t / 4 + eps {
                alive = false;
                unsure = false;
                pending = 0;
                pending_unknown = false;
                limbo = false;
            } else if idle + eps >= t {
                unsure = true;
            }
        }
        if *is_reply {
            if alive || limbo {
                last = *te;
                if is_dns {
                    if pending_unknown {
                        limbo = true;
                    } else {
                        pending -= 1;
                        if pending <= 0 && !unsure {
                            alive = false;
                            pending = 0;
                        } else if pending <= 0 {
                            limbo = true;
                        }
                    }
                }
            }
        } else {
            if unsure {
                // the old incarnation continues or a new one starts here
                if is_dns {
                    pending_unknown = true;
                }
                unsure = false;
            } else if !alive && !limbo {
                pending = 0;
            }
            if limbo {
                // a datagram certainly makes the pair alive again, with unknown history
                limbo = false;
                pending_unknown = is_dns;
            }
            alive = true;
            last = *te;
            pending += 1;
        }
    }
    if alive || limbo {
        let idle = at - last;
        if idle > t + t / 4 + eps {
            return Some(false);
        }
        if idle + eps >= t {
            return None;
        }
    }
    if limbo || unsure {
        None
    } else {
        Some(alive)
    }
}

fn judge(plan: &UPlan, o: &Obs, flows_mode: bool, out: &mut Outcome) {
    if let Some(e) = &o.setup_error {
        out.violate("HARNESS", "udp-setup", e.clone());
        return;
    }
    if o.status != Some(200) {
        out.violate("C07", "udp:mux-not-accepted", format!("CONNECT _udp2 answered {:?}", o.status));
        return;
    }
    let proto = if plan.h2 { "h2" } else { "h1" };
    let prop = if flows_mode { "C07" } else { "C06" };
    let flows: Vec<(SocketAddr, SocketAddr)> = plan.flows.iter().map(|f| (f.src.parse().unwrap(), f.dst.parse().unwrap())).collect();
    out.nontrivial = !o.sent.is_empty();
    out.cell(format!("{}:cuts{}:bytewise={}", proto, plan.cuts.len().min(4), plan.bytewise));

    // ---- what the world saw leave, per destination --------------------------------------
    // expected: the valid records, in order, to flows whose socket could be connected
    let broken: Vec<bool> = plan.flows.iter().map(|f| f.connect_errno.is_some()).collect();
    let mut per_flow_expected: BTreeMap<usize, Vec<&SentRec>> = BTreeMap::new();
    for r in &o.sent {
        if r.valid && !broken[r.flow] {
            per_flow_expected.entry(r.flow).or_default().push(r);
        }
        out.cell(format!("rec:{}", if r.valid { "valid" } else { "invalid" }));
    }
    // the multiplexer must survive everything these plans do
    let mux_died = o.stream_end.is_some() && !o.still_open_at_end;
    if mux_died {
        let (t, clean) = o.stream_end.unwrap();
        // which planned event preceded the end?
        let cause = if o.errors_injected.iter().any(|e| e.2 <= t) {
            "after-socket-error"
        } else if plan.flows.iter().any(|f| f.connect_errno.is_some()) {
            "after-failed-connect"
        } else if o.sent.iter().any(|r| !r.valid) {
            "after-invalid-record"
        } else {
            "unprovoked"
        };
        out.violate(
            prop,
            format!("udp:{}:multiplexer-terminated:{}", proto, cause),
            format!("the _udp2 stream ended at {} us (clean={}) although the client kept it open", t, clean),
        );
        if flows_mode {
            return;
        }
    }
    for (f, (_, dst)) in flows.iter().enumerate() {
        let got: Vec<&world::UdpSent> = o.udp_sent.iter().filter(|s| s.dst == *dst).collect();
        let exp: Vec<&SentRec> = per_flow_expected.get(&f).cloned().unwrap_or_default();
        if flows_mode {
            // datagrams are not guaranteed (a flow in error may lose some): what was sent
            // must be a subsequence of what the client asked for, to the right destination
            let mut it = exp.iter();
            for g in &got {
                if !it.any(|e| e.payload == g.payload) {
                    out.violate(
                        "C07",
                        format!("udp:{}:unexpected-datagram", proto),
                        format!("flow {} -> {}: a datagram of {} bytes was sent that the client did not ask for (or out of order)", f, dst, g.payload.len()),
                    );
                    break;
                }
            }
        } else {
            let gp: Vec<&Vec<u8>> = got.iter().map(|g| &g.payload).collect();
            let ep: Vec<&Vec<u8>> = exp.iter().map(|e| &e.payload).collect();
            if gp != ep {
                let first_bad = gp.iter().zip(&ep).position(|(a, b)| a != b).unwrap_or(gp.len().min(ep.len()));
                let invalid_before = o.sent.iter().any(|r| !r.valid);
                // everything but the datagrams near the UDP maximum arrived, in order
                let only_large_missing = {
                    let mut g = gp.iter().peekable();
                    let mut ok = true;
                    for e in &ep {
                        if g.peek().map_or(false, |x| **x == *e) {
                            g.next();
                        } else if e.len() <= 64_000 {
                            ok = false;
                            break;
                        }
                    }
                    ok && g.peek().is_none()
                };
                let key = if only_large_missing {
                    format!("udpcodec:{}:large-datagram-dropped", proto)
                } else {
                    format!("udpcodec:{}:datagrams-differ:{}", proto, if invalid_before { "with-invalid-records" } else { "valid-only" })
                };
                out.violate(
                    "C06",
                    key,
                    format!(
                        "flow {} -> {}: {} datagrams left the endpoint, the client encoded {}; first difference at #{} (sizes sent {:?}, expected {:?}); cuts {:?} bytewise {}",
                        f, dst, gp.len(), ep.len(), first_bad,
                        gp.iter().map(|x| x.len()).take(8).collect::<Vec<_>>(),
                        ep.iter().map(|x| x.len()).take(8).collect::<Vec<_>>(),
                        plan.cuts, plan.bytewise
                    ),
                );
            }
        }
        // one socket per flow at a time, never shared with another flow
        for g in &got {
            if o.udp_sent.iter().any(|s| s.sock == g.sock && s.dst != *dst) {
                out.violate(prop, format!("udp:{}:socket-shared-between-flows", proto), format!("socket {} used for two destinations", g.sock));
            }
        }
    }
    // anything sent to a destination no flow names
    for s in &o.udp_sent {
        if !flows.iter().any(|(_, d)| *d == s.dst) {
            out.violate(prop, format!("udp:{}:unknown-destination", proto), format!("datagram to {}", s.dst));
        }
    }

    // ---- replies: framed per 6.4, labelled with the flow reversed -------------------------
    match parse_replies(&o.client_rx) {
        Err(e) => out.violate("C06", format!("udpcodec:{}:reply-framing", proto), e),
        Ok((replies, consumed)) => {
            if consumed != o.client_rx.len() {
                out.violate(
                    "C06",
                    format!("udpcodec:{}:reply-truncated", proto),
                    format!("{} trailing bytes do not form a record", o.client_rx.len() - consumed),
                );
            }
            let delivered: Vec<&(usize, usize, Vec<u8>, bool, u64)> = o.replies_injected.iter().filter(|r| r.3).collect();
            // every record the client got must be one that was injected, labelled correctly
            for r in &replies {
                let m = delivered.iter().find(|d| d.2 == r.payload && flows[d.1].1 == r.src);
                match m {
                    None => out.violate(
                        prop,
                        format!("udp:{}:reply-not-injected", proto),
                        format!("client received a datagram from {} to {} ({} bytes) that no destination sent", r.src, r.dst, r.payload.len()),
                    ),
                    Some(d) => {
                        if r.dst != flows[d.1].0 {
                            out.violate(
                                prop,
                                format!("udp:{}:reply-mislabelled", proto),
                                format!("reply of flow {} labelled {} -> {}, expected {} -> {}", d.1, r.src, r.dst, flows[d.1].1, flows[d.1].0),
                            );
                        }
                    }
                }
            }
            if !flows_mode {
                // ample window, spaced replies: none may be lost
                for d in &delivered {
                    if !replies.iter().any(|r| r.payload == d.2) {
                        out.violate(
                            "C06",
                            format!("udpcodec:{}:reply-lost", proto),
                            format!("reply of {} bytes on flow {} never reached the client", d.2.len(), d.1),
                        );
                    }
                }
            }
            out.cell(format!("replies:{}", replies.len().min(3)));
        }
    }
    if !flows_mode {
        return;
    }

    // ---- C07: socket life-cycle against the flow-table model ------------------------------
    let t = plan.udp_timeout_us;
    let eps = 5_000u64;
    // activity instants per flow: client datagrams that left, replies that were delivered
    let mut activity: Vec<Vec<u64>> = vec![vec![]; flows.len()];
    for s in &o.udp_sent {
        if let Some(f) = flows.iter().position(|(_, d)| *d == s.dst) {
            activity[f].push(s.t_us);
        }
    }
    for r in &o.replies_injected {
        if r.3 {
            activity[r.1].push(r.4);
        }
    }
    for snap in &o.snapshots {
        if let Some(e) = &snap.scrape_error {
            out.violate("C16", "udp:scrape-failed", e.clone());
            continue;
        }
        if let Some(g) = snap.gauge {
            let (lo, hi) = (
                snap.open_socks.len().min(snap.open_after) as f64,
                snap.open_socks.len().max(snap.open_after) as f64,
            );
            if g < lo || g > hi {
                out.violate(
                    "C07",
                    format!("udp:{}:gauge-differs-from-sockets", proto),
                    format!("at op {}: outbound_udp_sockets = {}, open sockets = {}", snap.op, g, snap.open_socks.len()),
                );
                // the same observation decides C16's UDP clause
                out.violate(
                    "C16",
                    format!("metrics:udp:{}:outbound_udp_sockets-differs", proto),
                    format!("at op {}: outbound_udp_sockets = {}, open sockets = {}", snap.op, g, snap.open_socks.len()),
                );
            }
        }
        if let Some((inb, outb)) = snap.traffic {
            // every datagram relayed is counted once, by its payload, in its direction
            if inb != snap.moved.0 as f64 {
                out.violate(
                    "C16",
                    format!("metrics:udp:{}:inbound_traffic_bytes-differs", proto),
                    format!("at op {}: inbound_traffic_bytes = {}, payload bytes that left for their destinations = {}", snap.op, inb, snap.moved.0),
                );
            }
            if outb != snap.moved.1 as f64 {
                out.violate(
                    "C16",
                    format!("metrics:udp:{}:outbound_traffic_bytes-differs", proto),
                    format!("at op {}: outbound_traffic_bytes = {}, payload bytes the client received = {}", snap.op, outb, snap.moved.1),
                );
            }
        }
        // C16 against the flow-table model as well as against the census: a flow that expired
        // (or a port-53 flow that was answered) no longer counts, whatever became of its socket
        if let Some(g) = snap.gauge {
            let (mut must, mut may) = (0usize, 0usize);
            for (f, (_, dst)) in flows.iter().enumerate() {
                let errored = broken[f] || o.errors_injected.iter().any(|e| e.1 == f && e.2 <= snap.t_us);
                if errored {
                    may += 1;
                    continue;
                }
                match flow_expected(&flow_events(o, f, *dst), dst.port() == 53, t, snap.t_us) {
                    Some(true) => {
                        must += 1;
                        may += 1;
                    }
                    Some(false) => {}
                    None => may += 1,
                }
            }
            if g > may as f64 {
                out.violate(
                    "C16",
                    format!("metrics:udp:{}:outbound_udp_sockets-above-live-flows", proto),
                    format!("at op {} ({} us): outbound_udp_sockets = {}, at most {} flows can be alive", snap.op, snap.t_us, g, may),
                );
            }
            if g < must as f64 {
                out.violate(
                    "C16",
                    format!("metrics:udp:{}:outbound_udp_sockets-below-live-flows", proto),
                    format!("at op {} ({} us): outbound_udp_sockets = {}, at least {} flows must be alive", snap.op, snap.t_us, g, must),
                );
            }
        }
        if let Some(t) = snap.tcp_gauge {
            if t != 0.0 {
                out.violate(
                    "C16",
                    format!("metrics:udp:{}:outbound_tcp_sockets-not-zero", proto),
                    format!("at op {}: outbound_tcp_sockets = {} although no TCP tunnel exists", snap.op, t),
                );
            }
        }
        // per flow: must the socket be open / closed at this instant?
        for (f, (_, dst)) in flows.iter().enumerate() {
            let is_dns = dst.port() == 53;
            let errored = broken[f] || o.errors_injected.iter().any(|e| e.1 == f && e.2 <= snap.t_us);
            if errored {
                continue;
            }
            let sock_open = o
                .udp_binds
                .iter()
                .filter(|b| o.udp_sent.iter().any(|s| s.sock == b.0 && s.dst == *dst))
                .any(|b| snap.open_socks.contains(&b.0));
            match flow_expected(&flow_events(o, f, *dst), is_dns, t, snap.t_us) {
                Some(true) if !sock_open => out.violate(
                    "C07",
                    format!("udp:{}:socket-released-early{}", proto, if is_dns { ":dns" } else { "" }),
                    format!("flow {} must be alive at op {} ({} us, T = {} us) but has no socket", f, snap.op, snap.t_us, t),
                ),
                Some(false) if sock_open => out.violate(
                    "C07",
                    format!("udp:{}:socket-not-released{}", proto, if is_dns { ":dns" } else { "" }),
                    format!("flow {} must be gone at op {} ({} us, T = {} us) but its socket is open", f, snap.op, snap.t_us, t),
                ),
                _ => {}
            }
        }
    }
    // a datagram arriving on a live flow's socket is returned to the client
    for r in &o.replies_injected {
        let (op, f, payload, delivered, t_r) = (r.0, r.1, &r.2, r.3, r.4);
        let dst = flows[f].1;
        if broken[f] || o.errors_injected.iter().any(|e| e.1 == f && e.2 <= t_r) {
            continue;
        }
        let is_dns = dst.port() == 53;
        if flow_expected(&flow_events(o, f, dst), is_dns, t, t_r) != Some(true) {
            continue;
        }
        if !delivered {
            out.violate(
                "C07",
                format!("udp:{}:socket-released-early{}", proto, if is_dns { ":dns" } else { "" }),
                format!("flow {} must be alive at {} us (T = {} us): its socket was gone when the reply of op {} arrived", f, t_r, t, op),
            );
        } else if let Ok((replies, _)) = parse_replies(&o.client_rx) {
            if !replies.iter().any(|x| x.payload == *payload && x.src == dst) && o.still_open_at_end {
                out.violate(
                    "C07",
                    format!("udp:{}:reply-not-returned{}", proto, if is_dns { ":dns" } else { "" }),
                    format!("flow {}: the reply of op {} ({} bytes) reached the flow's socket but not the client", f, op, payload.len()),
                );
            }
        }
    }
    // a datagram on a pair whose flow expired - or was closed by a socket error - starts a fresh
    // flow: it is not lost. Only datagrams that race with an error (5 ms before to 50 ms after
    // it was injected) may be.
    for (f, (_, dst)) in flows.iter().enumerate() {
        if broken[f] {
            continue;
        }
        let errs: Vec<u64> = o.errors_injected.iter().filter(|e| e.1 == f).map(|e| e.2).collect();
        let exp: Vec<&SentRec> = per_flow_expected.get(&f).cloned().unwrap_or_default();
        let got: Vec<&world::UdpSent> = o.udp_sent.iter().filter(|s| s.dst == *dst).collect();
        let missing = exp
            .iter()
            .filter(|e| !errs.iter().any(|te| e.t_us + 5_000 >= *te && e.t_us <= *te + 50_000))
            .find(|e| !got.iter().any(|g| g.payload == e.payload));
        if let Some(m) = missing {
            let prev = exp.iter().filter(|e| e.t_us < m.t_us).map(|e| e.t_us).max();
            let after_expiry = prev.map(|p| m.t_us - p > t).unwrap_or(false);
            let after_error = errs.iter().any(|te| *te < m.t_us);
            out.violate(
                "C07",
                format!(
                    "udp:{}:datagram-lost{}",
                    proto,
                    if after_error { ":after-socket-error" } else if after_expiry { ":first-after-expiry" } else { "" }
                ),
                format!("flow {} -> {}: the datagram of op {} ({} bytes) never left the endpoint", f, dst, m.op, m.payload.len()),
            );
        }
        // the socket a flow had when the error struck is released
        for te in &errs {
            for snap in o.snapshots.iter().filter(|s| s.t_us >= *te + 50_000) {
                let stale = o
                    .udp_binds
                    .iter()
                    .filter(|b| b.2 < *te && o.udp_sent.iter().any(|s| s.sock == b.0 && s.dst == *dst))
                    .find(|b| snap.open_socks.contains(&b.0));
                if let Some(b) = stale {
                    out.violate(
                        "C07",
                        format!("udp:{}:socket-not-released-after-error", proto),
                        format!("flow {}: socket {} was still open at op {}, {} us after the socket error", f, b.0, snap.op, snap.t_us - te),
                    );
                    break;
                }
            }
        }
    }
}
