//! C01 (authentication gate), C10 (exactly one, correctly coded, final response) and C03
//! (private-network egress policy): sessions of tunnel requests driven through the real
//! `Tunnel` + `HttpDownstream` + codec + forwarder, each request aimed at a destination no
//! other request uses, so that every resolver query, connect and response is attributable.
//!
//! Three scenario names share this code and differ in what the generator stresses:
//! `auth`, `responses`, `egress`.

use crate::actors::*;
use crate::endpoint::{self, EpConfig, FRACTION_US};
use crate::prng::Rng;
use crate::refmodel::{self, Egress};
use crate::scenario::*;
use crate::sim::{self, Outcome};
use crate::world::{self, ConnectOutcome, DnsOutcome, DnsPlan, EpFaults, HostPlan, PeerConn, PeerRead};
use bytes::Bytes;
use serde::{Deserialize, Serialize};
use serde_json::Value;
use std::net::{IpAddr, SocketAddr};
use std::sync::{Arc, Mutex};
use std::time::Duration;
use trusttunnel::authentication::{Authenticator, Source, Status};

pub struct Requests {
    pub focus: Focus,
}

#[derive(Clone, Copy, PartialEq, Eq, Debug)]
pub enum Focus {
    Auth,
    Responses,
    Egress,
}

#[derive(Clone, Debug, Serialize, Deserialize, PartialEq)]
pub enum AuthCase {
    Absent,
    Valid(usize),
    WrongUser,
    WrongPass,
    /// right pair of a user, password of another
    CrossPair,
    InnerSpace,
    TrailingSpace,
    OtherScheme,
    NoSpace,
    LowerScheme,
    BadBase64,
    UnpaddedBase64,
    NonUtf8,
    Empty,
    DuplicateValidFirst,
    DuplicateValidLast,
    /// "Basic " + base64 of something without a colon
    NoColon,
    /// the valid token without any scheme
    BareToken,
    /// "Basic Basic <valid token>"
    DoubledScheme,
    /// "Basic" + TAB + valid token
    TabSeparator,
    /// " Basic <valid token>" (leading space inside the value on HTTP/2; OWS on HTTP/1.1)
    LeadingSpace,
    /// "Basic " and nothing else
    SchemeOnly,
}

#[derive(Clone, Debug, Serialize, Deserialize, PartialEq)]
pub enum ConnP {
    Ok,
    Refused,
    NetUnreachable,
    HostUnreachable,
    TimedOut,
    Never,
    Emfile,
    Other,
}

#[derive(Clone, Debug, Serialize, Deserialize, PartialEq)]
pub enum DnsP {
    /// the same answer every time
    Answer(Vec<String>),
    /// second and later queries answer loopback (rebinding)
    Rebind(Vec<String>),
    Error,
    Empty,
    Never,
}

#[derive(Clone, Debug, Serialize, Deserialize)]
pub struct Req {
    pub method: String,
    /// authority for CONNECT, absolute URI otherwise
    pub target: String,
    pub auth: AuthCase,
    /// for host-name targets: what the resolver says for "<host>:<port>"
    pub dns: Option<DnsP>,
    pub dns_delay_us: u64,
    /// outcome of connecting to any address of this request
    pub conn: ConnP,
    pub conn_delay_us: u64,
    pub delay_us: u64,
    /// plain-HTTP requests only: 1 = Content-Length "3x", 2 = two Content-Length headers,
    /// 3 = two Host headers - framing the forwarder must refuse (after it has connected)
    #[serde(default)]
    pub bad_framing: u8,
}

#[derive(Clone, Debug, Serialize, Deserialize)]
pub struct ReqPlan {
    pub seed: u64,
    pub h2: bool,
    /// 0 = no authenticator, 1 = registry, 2 = registry + authenticator accepting SNI creds
    pub auth_cfg: u8,
    pub users: Vec<(String, String)>,
    /// 0 = none, 1 = accepted by the custom authenticator, 2 = not accepted
    pub sni_creds: u8,
    pub allow_private: bool,
    pub ipv6: bool,
    pub icmp: bool,
    pub establish_timeout_us: u64,
    pub client_seg: CutP,
    pub client_read_cut: CutP,
    pub reqs: Vec<Req>,
}

const GOOD_SNI: &str = "sni-good-cred";
const BAD_SNI: &str = "sni-bad-cred";

struct SniAuthenticator {
    inner: Arc<dyn Authenticator>,
}

impl Authenticator for SniAuthenticator {
    fn authenticate(&self, source: &Source<'_>, id: &trusttunnel::log_utils::IdChain<u64>) -> Status {
        match source {
            Source::Sni(x) if x == GOOD_SNI => Status::Pass,
            Source::Sni(_) => Status::Reject,
            other => self.inner.authenticate(other, id),
        }
    }
}

// ---------------------------------------------------------------------------------------
// generation
// ---------------------------------------------------------------------------------------

const USER_ALPHABET: &[&str] = &["alice", "bob", "u:ser", "p@ss w", "пароль", "x", "a\"b", "q\\r", " lead", "trail "];

fn draw_users(rng: &mut Rng) -> Vec<(String, String)> {
    let n = 1 + rng.usize_below(3);
    let mut v: Vec<(String, String)> = Vec::new();
    for i in 0..n {
        let mut u = format!("{}{}", rng.pick(USER_ALPHABET), i);
        // a user name cannot contain a colon (RFC 7617)
        u = u.replace(':', "_");
        let p = format!("{}-{}", rng.pick(USER_ALPHABET), rng.below(1000));
        v.push((u, p));
    }
    v
}

fn special_v4(rng: &mut Rng) -> String {
    // boundaries of every registry block: first-1, first, last, last+1, inside
    let (net, len, _, _) = rng.pick(refmodel::V4_BLOCKS);
    let base = u32::from(std::net::Ipv4Addr::from(*net));
    let size = if *len == 0 { u32::MAX } else { (1u64 << (32 - len)) as u32 - 1 };
    let a = match rng.below(5) {
        0 => base.wrapping_sub(1),
        1 => base,
        2 => base.wrapping_add(size),
        3 => base.wrapping_add(size).wrapping_add(1),
        _ => base.wrapping_add(rng.below(size as u64 + 1) as u32),
    };
    std::net::Ipv4Addr::from(a).to_string()
}

fn global_v4(rng: &mut Rng) -> String {
    loop {
        let a = std::net::Ipv4Addr::from(rng.next_u64() as u32);
        if refmodel::classify_v4(a).0 == Egress::MustAllow {
            return a.to_string();
        }
    }
}

fn any_v6(rng: &mut Rng) -> String {
    let first: u16 = match rng.below(12) {
        0 => 0x2001,
        1 => 0x2a00 + rng.below(16) as u16,
        2 => 0x2600 + rng.below(0x100) as u16,
        3 => 0x2400 + rng.below(0x100) as u16,
        4 => 0xfe80 + rng.below(0x40) as u16,
        5 => 0xfc00 + rng.below(0x200) as u16,
        6 => 0xff00 + rng.below(0x100) as u16,
        7 => 0x2002,
        8 => 0x0064,
        9 => 0,
        _ => rng.below(0x10000) as u16,
    };
    let second: u16 = match rng.below(6) {
        0 => 0xdb8,
        1 => 0,
        2 => 0x4860,
        3 => 0xff9b,
        _ => rng.below(0x10000) as u16,
    };
    let mut seg = [first, second, 0, 0, 0, 0, 0, 0];
    match rng.below(4) {
        0 => seg[7] = 1,
        1 => {
            for s in seg.iter_mut().skip(2) {
                *s = rng.below(0x10000) as u16;
            }
        }
        2 => seg[7] = rng.below(0x10000) as u16,
        _ => {}
    }
    if first == 0 && rng.chance(1, 2) {
        // ::, ::1, ::ffff:a.b.c.d, ::a.b.c.d
        return match rng.below(4) {
            0 => "::".into(),
            1 => "::1".into(),
            2 => format!("::ffff:{}", if rng.chance(1, 2) { special_v4(rng) } else { global_v4(rng) }),
            _ => format!("::{}", global_v4(rng)),
        };
    }
    std::net::Ipv6Addr::from(seg).to_string()
}

fn draw_addr(rng: &mut Rng, want_refused: Option<bool>) -> String {
    for _ in 0..64 {
        let s = match rng.below(6) {
            0 | 1 => special_v4(rng),
            2 => global_v4(rng),
            _ => any_v6(rng),
        };
        let ip: IpAddr = s.parse().unwrap();
        match (want_refused, refmodel::classify(ip).0) {
            (None, _) => return s,
            (Some(true), Egress::MustRefuse) => return s,
            (Some(false), Egress::MustAllow) => return s,
            _ => {}
        }
    }
    if want_refused == Some(true) {
        "10.1.2.3".into()
    } else {
        "93.184.216.34".into()
    }
}

fn draw_v4(rng: &mut Rng) -> String {
    if rng.chance(1, 3) {
        global_v4(rng)
    } else {
        special_v4(rng)
    }
}

fn authority_of(ip: &str, port: u16) -> String {
    if ip.contains(':') {
        format!("[{}]:{}", ip, port)
    } else {
        format!("{}:{}", ip, port)
    }
}

fn draw_auth(rng: &mut Rng, focus: Focus, n_users: usize) -> AuthCase {
    let valid = AuthCase::Valid(rng.usize_below(n_users.max(1)));
    let stress = match focus {
        Focus::Auth => 7,
        _ => 1,
    };
    if rng.below(10) >= stress {
        return valid;
    }
    match rng.below(21) {
        16 => AuthCase::BareToken,
        17 => AuthCase::DoubledScheme,
        18 => AuthCase::TabSeparator,
        19 => AuthCase::LeadingSpace,
        20 => AuthCase::SchemeOnly,
        0 => AuthCase::Absent,
        1 => AuthCase::WrongUser,
        2 => AuthCase::WrongPass,
        3 => AuthCase::CrossPair,
        4 => AuthCase::InnerSpace,
        5 => AuthCase::TrailingSpace,
        6 => AuthCase::OtherScheme,
        7 => AuthCase::NoSpace,
        8 => AuthCase::LowerScheme,
        9 => AuthCase::BadBase64,
        10 => AuthCase::UnpaddedBase64,
        11 => AuthCase::NonUtf8,
        12 => AuthCase::Empty,
        13 => AuthCase::DuplicateValidFirst,
        14 => AuthCase::DuplicateValidLast,
        _ => AuthCase::NoColon,
    }
}

fn draw_conn(rng: &mut Rng, focus: Focus) -> ConnP {
    let stress = if focus == Focus::Responses { 6 } else { 2 };
    if rng.below(10) >= stress {
        return ConnP::Ok;
    }
    match rng.below(7) {
        0 => ConnP::Refused,
        1 => ConnP::NetUnreachable,
        2 => ConnP::HostUnreachable,
        3 => ConnP::TimedOut,
        4 => ConnP::Never,
        5 => ConnP::Emfile,
        _ => ConnP::Other,
    }
}

fn draw_req(rng: &mut Rng, focus: Focus, idx: usize, n_users: usize) -> Req {
    let port = 10_000 + idx as u16;
    let auth = draw_auth(rng, focus, n_users);
    let mut dns = None;
    let mut method = "CONNECT".to_string();
    let kind = match focus {
        // 12, 13: literals that do not parse as ip:port - a plain-HTTP target without a port,
        // an authority with userinfo - reach the forwarder as "host names"
        Focus::Egress => match rng.below(5) {
            3 => 12,
            4 => 13,
            k => 4 + k,
        },
        Focus::Responses => rng.below(12),
        Focus::Auth => rng.below(9),
    };
    let target = match kind {
        0 => "_check".to_string(),
        1 => "_udp2".to_string(),
        2 => "_icmp".to_string(),
        // literal destinations
        3 | 4 => {
            let want = match focus {
                Focus::Egress => None,
                // C10's policy-refusal outcome (310 / 311): a literal the policy refuses
                Focus::Responses if rng.chance(1, 6) => Some(true),
                _ => Some(false),
            };
            authority_of(&draw_addr(rng, want), port)
        }
        // host names
        5 | 6 => {
            let name = format!("n{}.sim.test", idx);
            let n_ans = 1 + rng.usize_below(3);
            let mut answers = Vec::new();
            for _ in 0..n_ans {
                let want = match focus {
                    Focus::Egress => None,
                    _ => Some(false),
                };
                answers.push(authority_of(&draw_addr(rng, want), port));
            }
            dns = Some(match rng.below(if focus == Focus::Auth { 10 } else { 14 }) {
                0..=8 => DnsP::Answer(answers),
                9 => DnsP::Rebind(answers),
                10 => DnsP::Error,
                11 => DnsP::Empty,
                12 => DnsP::Never,
                _ => DnsP::Answer(answers),
            });
            format!("{}:{}", name, port)
        }
        // plain HTTP through the tunnel channel
        7 => {
            method = if rng.chance(1, 2) { "GET" } else { "POST" }.to_string();
            let name = format!("n{}.sim.test", idx);
            dns = Some(DnsP::Answer(vec![authority_of(&global_v4(rng), 80)]));
            format!("http://{}/p{}", name, idx)
        }
        // the reserved names with other methods, or names that only look reserved
        8 => {
            method = (*rng.pick(&["GET", "POST", "PUT", "OPTIONS"])).to_string();
            format!("http://{}/", rng.pick(&["_check", "_udp2", "_icmp"]))
        }
        9 => {
            let name = (*rng.pick(&[
                "_CHECK", "_Check", "_check.x", "x_check", "_udp2x", "_UDP2", "_Udp2", "_ICMP", "_Icmp", "_udp", "_check.", "_checK",
            ]))
            .to_string();
            dns = Some(DnsP::Error);
            if rng.chance(1, 2) {
                // without a port a look-alike is a CONNECT without a port: refused, not served
                name
            } else {
                format!("{}:{}", name, port)
            }
        }
        // IPv4 only: a bracketed IPv6 literal in these positions is not something getaddrinfo
        // resolves, so nothing is attempted and no policy verdict exists
        12 => {
            method = "GET".to_string();
            format!("http://{}/e{}", draw_v4(rng), idx)
        }
        13 => format!("u{}@{}", idx, authority_of(&draw_v4(rng), port)),
        // CONNECT without a port
        10 => {
            let name = format!("n{}.sim.test", idx);
            dns = Some(DnsP::Answer(vec![authority_of(&global_v4(rng), 443)]));
            name
        }
        _ => format!("_check:{}", port),
    };
    let bad_framing = if kind == 7 && rng.chance(1, 4) { 1 + rng.below(3) as u8 } else { 0 };
    Req {
        bad_framing,
        method,
        target,
        auth,
        dns,
        dns_delay_us: rng.size(1, 20_000),
        conn: draw_conn(rng, focus),
        conn_delay_us: rng.size(1, 50_000),
        delay_us: if rng.chance(1, 2) { 0 } else { rng.size(1, 30_000) },
    }
}

/// The enumerated part of the egress space: every boundary of every registry block in every
/// spelling, and every value of the first IPv6 hextet
fn systematic_items(tier: Tier) -> Vec<(String, u8, bool)> {
    // (address, form: 0 literal / 1 IPv4-mapped literal / 2 host name, allow_private)
    let mut v = Vec::new();
    for allow in [false, true] {
        for (net, len, _, _) in refmodel::V4_BLOCKS {
            let base = u32::from(std::net::Ipv4Addr::from(*net));
            let size = ((1u64 << (32 - len)) - 1) as u32;
            for a in [
                base.wrapping_sub(1),
                base,
                base.wrapping_add(size / 2),
                base.wrapping_add(size),
                base.wrapping_add(size).wrapping_add(1),
            ] {
                let ip = std::net::Ipv4Addr::from(a);
                v.push((ip.to_string(), 0, allow));
                v.push((format!("::ffff:{}", ip), 1, allow));
                v.push((ip.to_string(), 2, allow));
            }
        }
        for (net, len, _, _) in refmodel::V6_BLOCKS {
            let base = u128::from(std::net::Ipv6Addr::from(*net));
            let size = if *len == 128 { 0 } else { (1u128 << (128 - len)) - 1 };
            for a in [
                base.wrapping_sub(1),
                base,
                base.wrapping_add(size / 2),
                base.wrapping_add(size),
                base.wrapping_add(size).wrapping_add(1),
            ] {
                let ip = std::net::Ipv6Addr::from(a);
                v.push((ip.to_string(), 0, allow));
                v.push((ip.to_string(), 2, allow));
            }
        }
    }
    let step = if tier == Tier::Thorough { 1 } else { 16 };
    let mut h = 0u32;
    while h < 0x10000 {
        // every low nibble is visited in both tiers
        let first = (h as u16) | if tier == Tier::Thorough { 0 } else { ((h / 16) % 16) as u16 };
        v.push((
            std::net::Ipv6Addr::new(first, 0x4860, 0, 0, 0, 0, 0, 1).to_string(),
            0,
            false,
        ));
        h += step;
    }
    v
}

const SYS_PER_PLAN: usize = 12;

fn systematic_plan(items: &[(String, u8, bool)], k: usize) -> ReqPlan {
    let slice = &items[k * SYS_PER_PLAN..((k + 1) * SYS_PER_PLAN).min(items.len())];
    let allow = slice[0].2;
    let reqs = slice
        .iter()
        .filter(|x| x.2 == allow)
        .enumerate()
        .map(|(i, (addr, form, _))| {
            let port = 10_000 + i as u16;
            let (target, dns) = if *form == 2 {
                (
                    format!("n{}.sim.test:{}", i, port),
                    Some(DnsP::Answer(vec![authority_of(addr, port)])),
                )
            } else {
                (authority_of(addr, port), None)
            };
            Req {
                bad_framing: 0,
                method: "CONNECT".into(),
                target,
                auth: AuthCase::Valid(0),
                dns,
                dns_delay_us: 100,
                conn: ConnP::Ok,
                conn_delay_us: 100,
                delay_us: 0,
            }
        })
        .collect();
    ReqPlan {
        seed: 0x5e5 ^ k as u64,
        h2: true,
        auth_cfg: 1,
        users: vec![("u0".into(), "p0-secret-password".into())],
        sni_creds: 0,
        allow_private: allow,
        ipv6: true,
        icmp: false,
        establish_timeout_us: 30_000_000 + FRACTION_US,
        client_seg: CutP::all(),
        client_read_cut: CutP::all(),
        reqs,
    }
}

impl Scenario for Requests {
    fn systematic(&self, tier: Tier) -> u64 {
        if self.focus == Focus::Egress {
            systematic_items(tier).len().div_ceil(SYS_PER_PLAN) as u64
        } else {
            0
        }
    }

    fn name(&self) -> &'static str {
        match self.focus {
            Focus::Auth => "auth",
            Focus::Responses => "responses",
            Focus::Egress => "egress",
        }
    }

    fn budget(&self, tier: Tier) -> u64 {
        // egress sessions carry up to 12 requests and resolver answers: about five times dearer
        match (tier, self.focus) {
            (Tier::Quick, Focus::Egress) => 60_000,
            (Tier::Thorough, Focus::Egress) => 1_500_000,
            (Tier::Quick, _) => 100_000,
            (Tier::Thorough, _) => 6_000_000,
        }
    }

    fn generate(&self, seed: u64, index: u64, tier: Tier) -> Value {
        if self.focus == Focus::Egress {
            let items = systematic_items(tier);
            let n_sys = items.len().div_ceil(SYS_PER_PLAN);
            if (index as usize) < n_sys {
                return to_plan(&systematic_plan(&items, index as usize));
            }
        }
        let mut rng = Rng::new(seed).fork(&format!("{}{}", self.name(), index));
        let h2 = rng.chance(3, 5);
        let auth_cfg = match self.focus {
            Focus::Auth => rng.below(3) as u8,
            _ => {
                if rng.chance(1, 8) {
                    0
                } else {
                    1
                }
            }
        };
        let users = draw_users(&mut rng);
        let sni_creds = if self.focus == Focus::Auth && rng.chance(1, 3) {
            1 + rng.below(2) as u8
        } else {
            0
        };
        let n = if h2 {
            1 + rng.usize_below(if self.focus == Focus::Egress { 12 } else { 6 })
        } else {
            1
        };
        let reqs = (0..n)
            .map(|i| draw_req(&mut rng, self.focus, i, users.len()))
            .collect();
        let plan = ReqPlan {
            seed: rng.next_u64(),
            h2,
            auth_cfg,
            users,
            sni_creds,
            allow_private: if self.focus == Focus::Egress { rng.chance(1, 5) } else { rng.chance(1, 2) },
            ipv6: rng.chance(3, 4),
            icmp: rng.chance(1, 2),
            establish_timeout_us: if rng.chance(1, 2) {
                30_000_000 + FRACTION_US
            } else {
                rng.size(10_000, 5_000_000) + FRACTION_US
            },
            client_seg: CutP::draw(&mut rng, 4096),
            client_read_cut: CutP::draw(&mut rng, 4096),
            reqs,
        };
        to_plan(&plan)
    }

    fn execute(&self, plan: &Value) -> Outcome {
        let plan: ReqPlan = match from_plan(plan) {
            Ok(p) => p,
            Err(e) => return harness_error(e),
        };
        let p2 = plan.clone();
        let (obs, rep) = sim::run(plan.seed, Duration::from_secs(3600 * 24), move || run(p2));
        let mut out = Outcome::default();
        match obs {
            Some(obs) => judge(&plan, &obs, &mut out),
            None => {
                if !rep.main_panicked {
                    out.inconclusive = true;
                }
            }
        }
        sim::finish(out, &rep)
    }
}

// ---------------------------------------------------------------------------------------
// run
// ---------------------------------------------------------------------------------------

#[derive(Debug, Clone, Default)]
pub struct ReqObs {
    pub sent: bool,
    pub status: Option<u16>,
    pub headers: Vec<(String, String)>,
    pub error: Option<String>,
    /// bytes that followed the response head (tunnel banner / body)
    pub body: Vec<u8>,
    pub end_clean: Option<bool>,
    /// HTTP/1.1: more than one response head on the wire
    pub extra_heads: usize,
    pub malformed: Option<String>,
}

#[derive(Debug, Default)]
pub struct RunObs {
    pub reqs: Vec<ReqObs>,
    pub connects: Vec<(SocketAddr, u64)>,
    pub dns: Vec<(String, u64)>,
    pub udp_binds: usize,
    pub icmp_sends: usize,
    pub setup_error: Option<String>,
    pub census: world::Census,
}

fn header_bytes(plan: &ReqPlan, a: &AuthCase) -> Vec<Vec<u8>> {
    let v = header_bytes_inner(plan, a);
    for h in &v {
        // whatever follows the scheme is a credential, well-formed or not
        if let Ok(t) = std::str::from_utf8(h) {
            let token = t.split_once(' ').map(|x| x.1).unwrap_or(t).trim();
            sim::canary("proxy-authorization", token);
        }
    }
    v
}

fn header_bytes_inner(plan: &ReqPlan, a: &AuthCase) -> Vec<Vec<u8>> {
    use base64::Engine;
    let b64 = |s: String| base64::engine::general_purpose::STANDARD.encode(s);
    let pair = |i: usize| {
        let (u, p) = &plan.users[i % plan.users.len()];
        format!("{}:{}", u, p)
    };
    let tok = |i: usize| b64(pair(i));
    match a {
        AuthCase::Absent => vec![],
        AuthCase::Valid(i) => vec![format!("Basic {}", tok(*i)).into_bytes()],
        AuthCase::WrongUser => vec![format!("Basic {}", b64(format!("nobody:{}", plan.users[0].1))).into_bytes()],
        AuthCase::WrongPass => vec![format!("Basic {}", b64(format!("{}:wrong", plan.users[0].0))).into_bytes()],
        AuthCase::CrossPair => {
            let u = &plan.users[0].0;
            let p = &plan.users[plan.users.len() - 1].1;
            vec![format!("Basic {}", b64(format!("{}:{}x", u, p))).into_bytes()]
        }
        AuthCase::InnerSpace => vec![format!("Basic  {}", tok(0)).into_bytes()],
        AuthCase::TrailingSpace => vec![format!("Basic {} ", tok(0)).into_bytes()],
        AuthCase::OtherScheme => vec![format!("Bearer {}", tok(0)).into_bytes()],
        AuthCase::NoSpace => vec![format!("Basic{}", tok(0)).into_bytes()],
        AuthCase::LowerScheme => vec![format!("basic {}", tok(0)).into_bytes()],
        AuthCase::BadBase64 => vec![b"Basic !!!not*base64!!!".to_vec()],
        AuthCase::UnpaddedBase64 => vec![format!("Basic {}", tok(0).trim_end_matches('=')).into_bytes()],
        AuthCase::NonUtf8 => {
            let mut v = b"Basic ".to_vec();
            v.extend_from_slice(&[0xff, 0xfe, 0xc0, 0x80]);
            v.extend_from_slice(tok(0).as_bytes());
            vec![v]
        }
        AuthCase::Empty => vec![vec![]],
        AuthCase::DuplicateValidFirst => vec![
            format!("Basic {}", tok(0)).into_bytes(),
            format!("Basic {}", b64("nobody:nothing".into())).into_bytes(),
        ],
        AuthCase::DuplicateValidLast => vec![
            format!("Basic {}", b64("nobody:nothing".into())).into_bytes(),
            format!("Basic {}", tok(0)).into_bytes(),
        ],
        AuthCase::NoColon => vec![format!("Basic {}", b64("justoneword".into())).into_bytes()],
        AuthCase::BareToken => vec![tok(0).into_bytes()],
        AuthCase::DoubledScheme => vec![format!("Basic Basic {}", tok(0)).into_bytes()],
        AuthCase::TabSeparator => vec![format!("Basic\t{}", tok(0)).into_bytes()],
        AuthCase::LeadingSpace => vec![format!(" Basic {}", tok(0)).into_bytes()],
        AuthCase::SchemeOnly => vec![b"Basic ".to_vec()],
    }
}

fn banner(i: usize) -> Vec<u8> {
    format!("banner-of-request-{}\n", i).into_bytes()
}

fn conn_outcome(c: &ConnP) -> ConnectOutcome {
    match c {
        ConnP::Ok => ConnectOutcome::Ok,
        ConnP::Refused => ConnectOutcome::Refused,
        ConnP::NetUnreachable => ConnectOutcome::NetUnreachable,
        ConnP::HostUnreachable => ConnectOutcome::HostUnreachable,
        ConnP::TimedOut => ConnectOutcome::TimedOut,
        ConnP::Never => ConnectOutcome::Never,
        ConnP::Emfile => ConnectOutcome::Emfile,
        ConnP::Other => ConnectOutcome::OtherError,
    }
}

/// What the request's target says before any resolution: (host, port) and whether it is a literal
fn target_host_port(r: &Req) -> Option<(String, Option<u16>)> {
    let auth = if r.method == "CONNECT" {
        r.target.clone()
    } else {
        let rest = r.target.split("://").nth(1)?;
        rest.split('/').next()?.to_string()
    };
    let auth = match auth.rsplit_once('@') {
        Some((_, hostport)) => hostport.to_string(),
        None => auth,
    };
    if let Some(rest) = auth.strip_prefix('[') {
        let (h, p) = rest.split_once(']')?;
        let port = p.strip_prefix(':').and_then(|x| x.parse().ok());
        return Some((h.to_string(), port));
    }
    match auth.rsplit_once(':') {
        Some((h, p)) if p.parse::<u16>().is_ok() => Some((h.to_string(), p.parse().ok())),
        _ => Some((auth, None)),
    }
}

fn req_addrs(r: &Req) -> Vec<SocketAddr> {
    let mut v = Vec::new();
    match &r.dns {
        Some(DnsP::Answer(a)) | Some(DnsP::Rebind(a)) => {
            for x in a {
                if let Ok(sa) = x.parse() {
                    v.push(sa);
                }
            }
        }
        _ => {}
    }
    if let (Some(DnsP::Rebind(_)), Some((_, p))) = (&r.dns, target_host_port(r)) {
        // the address a second resolver query would hand out
        v.push(SocketAddr::new("127.0.0.1".parse().unwrap(), p.unwrap_or(443)));
    }
    if let Some((h, p)) = target_host_port(r) {
        if let Ok(ip) = h.parse::<IpAddr>() {
            let port = p.unwrap_or(if r.method == "CONNECT" { 0 } else { 80 });
            v.push(SocketAddr::new(ip, port));
        }
    }
    v
}

async fn run(plan: ReqPlan) -> RunObs {
    let mut result = RunObs::default();
    let n = plan.reqs.len();
    let cfg = EpConfig {
        listen: if plan.auth_cfg == 0 {
            "127.0.0.1:443".parse().unwrap()
        } else {
            "198.51.100.1:443".parse().unwrap()
        },
        users: if plan.auth_cfg == 0 { vec![] } else { plan.users.clone() },
        allow_private: plan.allow_private,
        ipv6: plan.ipv6,
        icmp: if plan.icmp { Some((3_000_000 + FRACTION_US, 16)) } else { None },
        establish_timeout_us: plan.establish_timeout_us,
        ..EpConfig::default()
    };
    let authenticator: Option<Arc<dyn Authenticator>> = match plan.auth_cfg {
        0 => None,
        1 => endpoint::registry(&cfg),
        _ => endpoint::registry(&cfg).map(|r| Arc::new(SniAuthenticator { inner: r }) as Arc<dyn Authenticator>),
    };
    let ep = match endpoint::build(&cfg, authenticator) {
        Ok(e) => e,
        Err(e) => {
            result.setup_error = Some(e);
            return result;
        }
    };

    // world: resolver and hosts of every request
    for (i, r) in plan.reqs.iter().enumerate() {
        if let (Some(d), Some((h, p))) = (&r.dns, target_host_port(r)) {
            let port = p.unwrap_or(if r.method == "CONNECT" { 443 } else { 80 });
            let parse = |v: &Vec<String>| -> Vec<SocketAddr> { v.iter().filter_map(|x| x.parse().ok()).collect() };
            let outcomes = match d {
                DnsP::Answer(a) => vec![DnsOutcome::Answer(parse(a))],
                DnsP::Rebind(a) => vec![
                    DnsOutcome::Answer(parse(a)),
                    DnsOutcome::Answer(vec![SocketAddr::new("127.0.0.1".parse().unwrap(), port)]),
                ],
                DnsP::Error => vec![DnsOutcome::Error],
                DnsP::Empty => vec![DnsOutcome::Answer(vec![])],
                DnsP::Never => vec![DnsOutcome::Never],
            };
            world::with(|w| {
                w.dns.insert(
                    format!("{}:{}", h, port),
                    DnsPlan {
                        outcomes,
                        delay: Duration::from_micros(r.dns_delay_us),
                    },
                )
            });
        }
        for a in req_addrs(r) {
            world::with(|w| {
                w.hosts.insert(
                    a,
                    HostPlan {
                        outcome: conn_outcome(&r.conn),
                        delay: Duration::from_micros(r.conn_delay_us),
                        ..HostPlan::default()
                    },
                )
            });
        }
        let _ = i;
    }
    // rebinding target: if the endpoint ever connects to loopback it is recorded, and refused
    // hosts: banner, then read to the end
    let hosts = {
        let plan = plan.clone();
        tokio::spawn(async move {
            loop {
                let (addr, conn) = world::next_established().await;
                let i = (0..plan.reqs.len()).find(|i| req_addrs(&plan.reqs[*i]).contains(&addr));
                let is_http = i.map(|i| plan.reqs[i].method != "CONNECT").unwrap_or(false);
                let b = banner(i.unwrap_or(999));
                tokio::spawn(async move {
                    if is_http {
                        // read the request head, answer, close
                        let mut buf = Vec::new();
                        loop {
                            if find(&buf, b"\r\n\r\n").is_some() {
                                break;
                            }
                            match conn.read(4096).await {
                                PeerRead::Data(d) => buf.extend_from_slice(&d),
                                _ => return,
                            }
                        }
                        let resp = format!(
                            "HTTP/1.1 200 OK\r\nContent-Length: {}\r\nConnection: close\r\n\r\n",
                            b.len()
                        );
                        let _ = conn.write_all(resp.as_bytes()).await;
                        let _ = conn.write_all(&b).await;
                        conn.shutdown_write();
                        loop {
                            match conn.read(4096).await {
                                PeerRead::Data(_) => {}
                                _ => break,
                            }
                        }
                    } else {
                        let _ = conn.write_all(&b).await;
                        loop {
                            match conn.read(4096).await {
                                PeerRead::Data(_) => {}
                                _ => break,
                            }
                        }
                        conn.shutdown_write();
                    }
                });
            }
        })
    };

    let obs: Vec<Arc<Mutex<ReqObs>>> = (0..n).map(|_| Arc::new(Mutex::new(ReqObs::default()))).collect();
    let rng = Rng::new(plan.seed);
    sim::canary("sni-credentials", GOOD_SNI);
    sim::canary("sni-credentials", BAD_SNI);
    let sni_creds = match plan.sni_creds {
        1 => Some(GOOD_SNI.to_string()),
        2 => Some(BAD_SNI.to_string()),
        _ => None,
    };
    let mut sessions = Vec::new();
    let mut tasks = Vec::new();
    let mut drivers = Vec::new();
    let mut peers = Vec::new();
    if plan.h2 {
        let (stream, peer) = world::client_conn(
            "203.0.113.7:51000".parse().unwrap(),
            64 * 1024,
            64 * 1024,
            EpFaults {
                read_cut: plan.client_read_cut.to_cut(),
                ..Default::default()
            },
        );
        peers.push(peer.clone());
        let core = ep.core.clone();
        let creds = sni_creds.clone();
        // as TlsDemux hands it over: the whole SNI, credentials label included
        let sni = creds.as_ref().map(|c| format!("{}.vpn.example", c)).unwrap_or_else(|| "vpn.example".into());
        sessions.push(tokio::spawn(async move {
            core.verif_serve_session(true, stream, sni, creds).await
        }));
        match h2_connect(
            peer,
            H2Params {
                seg: plan.client_seg.to_cut(),
                ..Default::default()
            },
            rng.fork("seg"),
        )
        .await
        {
            Ok(c) => {
                drivers.push(c.driver);
                for (i, r) in plan.reqs.iter().enumerate() {
                    tasks.push(tokio::spawn(h2_request(
                        plan.clone(),
                        i,
                        r.clone(),
                        c.send.clone(),
                        obs[i].clone(),
                    )));
                }
            }
            Err(e) => {
                // a session the endpoint refuses to serve (rejected SNI credentials) ends here
                for o in &obs {
                    o.lock().unwrap().error = Some(format!("session: {}", e));
                }
            }
        }
    } else {
        for (i, r) in plan.reqs.iter().enumerate() {
            let (stream, peer) = world::client_conn(
                SocketAddr::new("203.0.113.7".parse().unwrap(), 51000 + i as u16),
                64 * 1024,
                64 * 1024,
                EpFaults {
                    read_cut: plan.client_read_cut.to_cut(),
                    ..Default::default()
                },
            );
            peers.push(peer.clone());
            let core = ep.core.clone();
            let creds = sni_creds.clone();
            sessions.push(tokio::spawn(async move {
                let sni = creds.as_ref().map(|c| format!("{}.vpn.example", c)).unwrap_or_else(|| "vpn.example".into());
                core.verif_serve_session(false, stream, sni, creds).await
            }));
            tasks.push(tokio::spawn(h1_request(plan.clone(), i, r.clone(), peer, obs[i].clone())));
        }
    }

    // the slowest legitimate request: start delay + resolver + establishment time-out
    let window = Duration::from_micros(plan.establish_timeout_us * 2 + 60_000_000);
    let _ = tokio::time::timeout(window, async {
        for t in tasks.iter_mut() {
            let _ = t.await;
        }
    })
    .await;
    for t in &tasks {
        t.abort();
    }
    tokio::time::sleep(Duration::from_secs(2)).await;
    for d in &drivers {
        d.abort();
    }
    for p in &peers {
        p.shutdown_write();
        p.stop_reading();
    }
    tokio::time::sleep(Duration::from_secs(5)).await;
    for s in &sessions {
        s.abort();
    }
    hosts.abort();
    result.reqs = obs.iter().map(|o| o.lock().unwrap().clone()).collect();
    world::with(|w| {
        result.connects = w.connect_attempts.iter().map(|c| (c.addr, c.t_us)).collect();
        result.dns = w.dns_queries.iter().map(|q| (q.name.clone(), q.t_us)).collect();
        result.udp_binds = w.udp_binds.len();
        result.icmp_sends = w.icmp_sent.len();
        result.census = w.census.clone();
    });
    result
}

async fn h2_request(
    plan: ReqPlan,
    i: usize,
    r: Req,
    mut send: h2::client::SendRequest<Bytes>,
    obs: Arc<Mutex<ReqObs>>,
) {
    sleep_us(r.delay_us).await;
    let mut b = http::Request::builder().method(r.method.as_str()).uri(r.target.as_str());
    for h in header_bytes(&plan, &r.auth) {
        match http::HeaderValue::from_bytes(&h) {
            Ok(v) => b = b.header("proxy-authorization", v),
            Err(_) => {
                obs.lock().unwrap().error = Some("client cannot encode header".into());
                return;
            }
        }
    }
    sim::canary("cookie", &format!("CANARY-COOKIE-{}", i));
    sim::canary("authorization", &format!("CANARY-AUTHZ-{}", i));
    b = b
        .header("user-agent", "sim/1.0")
        .header("cookie", format!("CANARY-COOKIE-{}", i))
        .header("authorization", format!("Bearer CANARY-AUTHZ-{}", i));
    if r.bad_framing == 3 {
        b = b.header("host", "first.sim.test").header("host", "second.sim.test");
    }
    let req = match b.body(()) {
        Ok(r) => r,
        Err(e) => {
            obs.lock().unwrap().error = Some(format!("client cannot build request: {}", e));
            return;
        }
    };
    if std::future::poll_fn(|cx| send.poll_ready(cx)).await.is_err() {
        obs.lock().unwrap().error = Some("connection gone".into());
        return;
    }
    let is_connect = r.method == "CONNECT";
    let (resp, mut tx) = match send.send_request(req, false) {
        Ok(x) => x,
        Err(e) => {
            obs.lock().unwrap().error = Some(format!("send_request: {}", e));
            return;
        }
    };
    obs.lock().unwrap().sent = true;
    if !is_connect {
        let _ = tx.send_data(Bytes::new(), true);
    }
    let resp = match resp.await {
        Ok(r) => r,
        Err(e) => {
            obs.lock().unwrap().error = Some(format!("response: {}", e));
            return;
        }
    };
    {
        let mut o = obs.lock().unwrap();
        o.status = Some(resp.status().as_u16());
        o.headers = resp
            .headers()
            .iter()
            .map(|(k, v)| (k.as_str().to_string(), String::from_utf8_lossy(v.as_bytes()).into_owned()))
            .collect();
    }
    world::note(400 + i as u32, resp.status().as_u16() as u64, 0);
    let mut body = resp.into_body();
    let want = banner(i).len();
    loop {
        match body.data().await {
            Some(Ok(d)) => {
                let _ = body.flow_control().release_capacity(d.len());
                let mut o = obs.lock().unwrap();
                o.body.extend_from_slice(&d);
                if is_connect && o.body.len() >= want {
                    break;
                }
            }
            Some(Err(_)) => {
                obs.lock().unwrap().end_clean = Some(false);
                return;
            }
            None => {
                obs.lock().unwrap().end_clean = Some(true);
                return;
            }
        }
    }
    // tunnel established and banner received: end our direction, wait for the other
    let _ = tx.send_data(Bytes::new(), true);
    loop {
        match body.data().await {
            Some(Ok(d)) => {
                let _ = body.flow_control().release_capacity(d.len());
                obs.lock().unwrap().body.extend_from_slice(&d);
            }
            Some(Err(_)) => {
                obs.lock().unwrap().end_clean = Some(false);
                return;
            }
            None => {
                obs.lock().unwrap().end_clean = Some(true);
                return;
            }
        }
    }
}

async fn h1_request(plan: ReqPlan, i: usize, r: Req, conn: PeerConn, obs: Arc<Mutex<ReqObs>>) {
    sleep_us(r.delay_us).await;
    let mut head = Vec::new();
    head.extend_from_slice(format!("{} {} HTTP/1.1\r\n", r.method, r.target).as_bytes());
    if let Some((h, p)) = target_host_port(&r) {
        let host = match p {
            Some(p) if h.contains(':') => format!("[{}]:{}", h, p),
            Some(p) => format!("{}:{}", h, p),
            None => h,
        };
        head.extend_from_slice(format!("Host: {}\r\n", host).as_bytes());
    }
    for h in header_bytes(&plan, &r.auth) {
        head.extend_from_slice(b"Proxy-Authorization: ");
        head.extend_from_slice(&h);
        head.extend_from_slice(b"\r\n");
    }
    match r.bad_framing {
        1 => head.extend_from_slice(b"Content-Length: 3x\r\n"),
        2 => head.extend_from_slice(b"Content-Length: 5\r\nContent-Length: 7\r\n"),
        3 => head.extend_from_slice(b"Host: second.sim.test\r\n"),
        _ => {}
    }
    sim::canary("cookie", &format!("CANARY-COOKIE-{}", i));
    sim::canary("authorization", &format!("CANARY-AUTHZ-{}", i));
    head.extend_from_slice(
        format!(
            "User-Agent: sim/1.0\r\nCookie: CANARY-COOKIE-{}\r\nAuthorization: Bearer CANARY-AUTHZ-{}\r\n\r\n",
            i, i
        )
        .as_bytes(),
    );
    if conn.write_all(&head).await.is_err() {
        obs.lock().unwrap().error = Some("connection closed before the request was written".into());
        return;
    }
    obs.lock().unwrap().sent = true;
    let rest = match h1_read_head(&conn).await {
        H1ReadHead::Head(h, rest) => {
            let mut o = obs.lock().unwrap();
            o.status = Some(h.status);
            o.headers = h
                .headers
                .iter()
                .map(|(k, v)| (k.to_ascii_lowercase(), String::from_utf8_lossy(v).into_owned()))
                .collect();
            world::note(400 + i as u32, h.status as u64, 0);
            rest
        }
        H1ReadHead::Closed(b, how) => {
            let mut o = obs.lock().unwrap();
            o.error = Some(format!("closed before a response head ({} bytes, {:?})", b.len(), how));
            return;
        }
        H1ReadHead::Malformed(e, _) => {
            obs.lock().unwrap().malformed = Some(e);
            return;
        }
    };
    obs.lock().unwrap().body.extend_from_slice(&rest);
    let is_connect = r.method == "CONNECT";
    let status = obs.lock().unwrap().status;
    let want = banner(i).len();
    let mut fin_sent = false;
    loop {
        if is_connect && status == Some(200) && !fin_sent && obs.lock().unwrap().body.len() >= want {
            conn.shutdown_write();
            fin_sent = true;
        }
        match conn.read(4096).await {
            PeerRead::Data(d) => obs.lock().unwrap().body.extend_from_slice(&d),
            PeerRead::Eof => {
                obs.lock().unwrap().end_clean = Some(true);
                break;
            }
            PeerRead::Reset => {
                obs.lock().unwrap().end_clean = Some(false);
                break;
            }
        }
    }
    // a second response head on the same connection?
    let mut o = obs.lock().unwrap();
    let body = o.body.clone();
    if status != Some(200) || !is_connect {
        if find(&body, b"HTTP/1.").is_some() && !(status == Some(200) && !is_connect) {
            o.extra_heads += 1;
        }
    } else if body.starts_with(b"HTTP/1.") {
        o.extra_heads += 1;
    }
}

// ---------------------------------------------------------------------------------------
// reference and oracle
// ---------------------------------------------------------------------------------------

#[derive(Debug, PartialEq, Clone, Copy)]
enum Authz {
    Yes,
    No,
    Either,
}

fn authorised(plan: &ReqPlan, r: &Req) -> Authz {
    if plan.auth_cfg == 0 {
        // no credentials configured: the gate is open (a malformed header may still be refused)
        return match r.auth {
            AuthCase::Absent | AuthCase::Valid(_) => Authz::Yes,
            _ => Authz::Either,
        };
    }
    let sni_ok = plan.auth_cfg == 2 && plan.sni_creds == 1;
    let by_header = match r.auth {
        AuthCase::Valid(_) => Authz::Yes,
        // optional whitespace around a field value is not part of it on an HTTP/1.1 wire
        AuthCase::TrailingSpace | AuthCase::LeadingSpace if !plan.h2 => Authz::Yes,
        AuthCase::TrailingSpace | AuthCase::LeadingSpace => Authz::Either,
        // a tab is not the single space of RFC 7617, but it is whitespace: either
        AuthCase::TabSeparator => Authz::Either,
        // RFC 7235: the scheme is case-insensitive; RFC 4648: padding may be required
        AuthCase::LowerScheme | AuthCase::UnpaddedBase64 => Authz::Either,
        AuthCase::DuplicateValidFirst | AuthCase::DuplicateValidLast => Authz::Either,
        _ => Authz::No,
    };
    match (by_header, sni_ok, &r.auth) {
        (Authz::Yes, _, _) => Authz::Yes,
        (_, true, AuthCase::Absent) => Authz::Yes,
        // accepted SNI credentials and a bad header: the statement allows either reading
        (_, true, _) => Authz::Either,
        (x, false, _) => x,
    }
}

fn warning_code(o: &ReqObs) -> Option<u16> {
    o.headers
        .iter()
        .find(|(k, _)| k.eq_ignore_ascii_case("x-warning"))
        .and_then(|(_, v)| v.split(' ').next().and_then(|c| c.parse().ok()))
}

fn has_header(o: &ReqObs, name: &str) -> Option<String> {
    o.headers
        .iter()
        .find(|(k, _)| k.eq_ignore_ascii_case(name))
        .map(|(_, v)| v.clone())
}

fn auth_name(a: &AuthCase) -> String {
    match a {
        AuthCase::Valid(_) => "valid".into(),
        x => format!("{:?}", x),
    }
}

fn kind_name(r: &Req) -> &'static str {
    if r.method == "CONNECT" {
        match r.target.as_str() {
            "_check" => "check",
            "_udp2" => "udp",
            "_icmp" => "icmp",
            t if target_host_port(r).map(|(h, _)| h.parse::<IpAddr>().is_ok()).unwrap_or(false) => {
                let _ = t;
                "connect-ip"
            }
            _ => "connect-name",
        }
    } else {
        "plain-http"
    }
}

fn judge(plan: &ReqPlan, obs: &RunObs, out: &mut Outcome) {
    if let Some(e) = &obs.setup_error {
        out.violate("HARNESS", "requests-setup", e.clone());
        return;
    }
    let proto = if plan.h2 { "h2" } else { "h1" };
    let session_dropped = plan.auth_cfg != 0 && plan.sni_creds != 0 && !(plan.auth_cfg == 2 && plan.sni_creds == 1);
    for (i, (r, o)) in plan.reqs.iter().zip(&obs.reqs).enumerate() {
        let authz = authorised(plan, r);
        let kind = kind_name(r);
        out.cell(format!("{}:{}:{}:cfg{}:sni{}", proto, kind, auth_name(&r.auth), plan.auth_cfg, plan.sni_creds));
        // ---- egress attributable to this request --------------------------------------
        let addrs = req_addrs(r);
        let my_connects: Vec<&(SocketAddr, u64)> = obs.connects.iter().filter(|(a, _)| addrs.contains(a)).collect();
        let name_key = target_host_port(r).map(|(h, p)| {
            format!("{}:{}", h, p.unwrap_or(if r.method == "CONNECT" { 443 } else { 80 }))
        });
        let my_dns: Vec<&(String, u64)> = obs
            .dns
            .iter()
            .filter(|(n, _)| Some(n) == name_key.as_ref() || n.starts_with(&format!("n{}.sim.test", i)))
            .collect();
        let egress = !my_connects.is_empty() || !my_dns.is_empty();

        if !o.sent {
            continue;
        }
        if session_dropped {
            // SNI credentials the authenticator does not accept: the connection is dropped
            // before any request is read. No response is owed; egress is still forbidden.
            if egress || o.status == Some(200) {
                out.violate(
                    "C01",
                    format!("auth:{}:egress-on-rejected-sni", proto),
                    format!("request {} on a connection with rejected SNI credentials: status {:?}, egress {}", i, o.status, egress),
                );
            }
            continue;
        }

        // ---- C01 ----------------------------------------------------------------------
        match authz {
            Authz::No => {
                out.nontrivial = true;
                if egress {
                    out.violate(
                        "C01",
                        format!("auth:{}:{}:egress-without-credentials", proto, auth_name(&r.auth)),
                        format!(
                            "request {} ({} {}) with {:?} caused {} connects and {} resolver queries",
                            i, r.method, r.target, r.auth, my_connects.len(), my_dns.len()
                        ),
                    );
                }
                match o.status {
                    Some(407) => {
                        let ch = has_header(o, "proxy-authenticate").unwrap_or_default();
                        if !ch.starts_with("Basic") {
                            out.violate(
                                "C01",
                                format!("auth:{}:407-without-basic-challenge", proto),
                                format!("request {}: 407 with proxy-authenticate {:?}", i, ch),
                            );
                        }
                    }
                    Some(s) => {
                        out.violate(
                            "C01",
                            format!("auth:{}:{}:unauthorised-answered-{}", proto, auth_name(&r.auth), s),
                            format!(
                                "request {} ({} {}) with {:?} was answered {} instead of 407 (headers {:?})",
                                i, r.method, r.target, r.auth, s, o.headers
                            ),
                        );
                        // the same observation read as C10: the final response of a request that
                        // fails authentication is 407
                        out.violate(
                            "C10",
                            format!("resp:{}:authentication-failure-answered-{}", proto, s),
                            format!("request {} ({} {}) with {:?}, request number {} of its session, was answered {} instead of 407", i, r.method, r.target, r.auth, i + 1, s),
                        );
                    }
                    None => {
                        out.violate(
                            "C01",
                            format!("auth:{}:{}:unauthorised-not-answered", proto, auth_name(&r.auth)),
                            format!("request {} with {:?} got no response: {:?}", i, r.auth, o.error),
                        );
                        out.violate(
                            "C10",
                            format!("resp:{}:authentication-failure-not-answered", proto),
                            format!("request {} with {:?} got no response: {:?}", i, r.auth, o.error),
                        );
                    }
                }
                continue;
            }
            Authz::Either => {
                // either outcome, but a refusal must be the documented one and carry no egress
                if o.status == Some(407) {
                    if egress {
                        out.violate(
                            "C01",
                            format!("auth:{}:{}:egress-then-407", proto, auth_name(&r.auth)),
                            format!("request {} answered 407 after egress", i),
                        );
                    }
                    continue;
                }
                if plan.auth_cfg != 0 && o.status.map(|s| s != 200 && s != 407).unwrap_or(false) && !egress {
                    // refused, but not with the documented answer
                    if warning_code(o) == Some(300) && matches!(r.auth, AuthCase::LowerScheme | AuthCase::UnpaddedBase64 | AuthCase::TrailingSpace | AuthCase::DuplicateValidFirst | AuthCase::DuplicateValidLast) {
                        // falls through to the C10 table below only if it was treated as authorised
                    }
                }
            }
            Authz::Yes => {}
        }
        if authz == Authz::Yes && o.status == Some(407) {
            out.violate(
                "C01",
                format!("auth:{}:{}:configured-pair-rejected", proto, auth_name(&r.auth)),
                format!("request {} with a configured pair ({:?}) was answered 407", i, r.auth),
            );
            continue;
        }
        if authz == Authz::Either {
            // the endpoint may have treated it either way; nothing below is decidable
            // unless it behaved as authorised with the exact expected outcome
            if o.status != Some(200) {
                continue;
            }
        }

        // ---- C10 / C03: the request is authorised ------------------------------------
        judge_authorised(plan, proto, i, r, o, &my_connects, &my_dns, out);
    }
}

#[allow(clippy::too_many_arguments)]
fn judge_authorised(
    plan: &ReqPlan,
    proto: &str,
    i: usize,
    r: &Req,
    o: &ReqObs,
    my_connects: &[&(SocketAddr, u64)],
    my_dns: &[&(String, u64)],
    out: &mut Outcome,
) {
    let egress = !my_connects.is_empty() || !my_dns.is_empty();
    let c10 = |out: &mut Outcome, key: String, detail: String| out.violate("C10", key, detail);
    if o.extra_heads > 0 {
        c10(out, format!("resp:{}:second-response-head", proto), format!("request {}: more than one response head", i));
    }
    if let Some(m) = &o.malformed {
        c10(out, format!("resp:{}:malformed-response", proto), format!("request {}: {}", i, m));
        return;
    }
    let status = match o.status {
        Some(s) => s,
        None => {
            c10(
                out,
                format!("resp:{}:{}:no-final-response", proto, kind_name(r)),
                format!("request {} ({} {}) got no response: {:?}", i, r.method, r.target, o.error),
            );
            return;
        }
    };
    out.nontrivial = true;
    let is_connect = r.method == "CONNECT";
    let reserved = ["_check", "_udp2", "_icmp"];
    let host_port = target_host_port(r);
    let (host, port) = match &host_port {
        Some((h, p)) => (h.clone(), *p),
        None => (String::new(), None),
    };

    // reserved authorities
    if reserved.contains(&host.as_str()) && port.is_none() {
        if egress {
            c10(
                out,
                format!("resp:{}:reserved-name-looked-up", proto),
                format!("request {} ({} {}) caused egress", i, r.method, r.target),
            );
        }
        if is_connect {
            let ok = status == 200 || (host == "_icmp" && !plan.icmp);
            if !ok {
                c10(
                    out,
                    format!("resp:{}:{}:status-{}", proto, host, status),
                    format!("CONNECT {} answered {}", host, status),
                );
            }
        } else if status != 502 {
            c10(
                out,
                format!("resp:{}:reserved-other-method-status-{}", proto, status),
                format!("{} {} answered {} instead of 502", r.method, r.target, status),
            );
        }
        return;
    }

    // CONNECT without a port
    if is_connect && port.is_none() {
        if status != 502 || !my_connects.is_empty() {
            c10(
                out,
                format!("resp:{}:connect-without-port-status-{}", proto, status),
                format!("CONNECT {} answered {} with {} connects", r.target, status, my_connects.len()),
            );
        }
        return;
    }

    // where may / must it go?
    let literal: Option<IpAddr> = host.parse().ok();
    let answers: Option<Vec<SocketAddr>> = match &r.dns {
        Some(DnsP::Answer(a)) | Some(DnsP::Rebind(a)) => Some(a.iter().filter_map(|x| x.parse().ok()).collect()),
        _ => None,
    };
    let policy_on = !plan.allow_private;

    // C03: single resolution, connect target is an address of that answer that passed
    if literal.is_none() && my_dns.len() > 1 {
        out.violate(
            "C03",
            format!("egress:{}:resolved-more-than-once", proto),
            format!("request {} ({}) was resolved {} times", i, r.target, my_dns.len()),
        );
    }
    // a literal that does not parse as ip:port (no port, userinfo) goes through getaddrinfo,
    // which answers numeric hosts without a query: that is no second source of truth
    let numeric_via_resolver = r.target.contains('@') || (!is_connect && port.is_none());
    if literal.is_some() && !my_dns.is_empty() && !numeric_via_resolver {
        out.violate(
            "C03",
            format!("egress:{}:literal-resolved", proto),
            format!("request {} ({}) is a literal but the resolver was asked", i, r.target),
        );
    }
    for (a, _) in my_connects {
        let (class, name) = refmodel::classify(a.ip());
        out.cell(format!("egress:{}:{:?}:{}", name, class, if policy_on { "on" } else { "off" }));
        if policy_on && class == Egress::MustRefuse {
            out.violate(
                "C03",
                format!("egress:{}:connect-to-{}", proto, name),
                format!("request {} ({}) led to a connect to {} ({})", i, r.target, a, name),
            );
        }
    }
    if my_connects.len() > 1 {
        c10(
            out,
            format!("resp:{}:more-than-one-connect", proto),
            format!("request {} led to {} connects", i, my_connects.len()),
        );
    }
    if let Some(DnsP::Rebind(first)) = &r.dns {
        let second = SocketAddr::new("127.0.0.1".parse().unwrap(), port.unwrap_or(443));
        if !first.iter().any(|x| x.parse() == Ok(second)) && my_connects.iter().any(|(a, _)| *a == second) {
            out.violate(
                "C03",
                format!("egress:{}:rebinding", proto),
                format!("request {}: connected to the second (loopback) answer", i),
            );
        }
    }

    // candidates in the order the endpoint may consider them
    let cands: Vec<SocketAddr> = match (&literal, &answers) {
        (Some(ip), _) => vec![SocketAddr::new(*ip, port.unwrap_or(80))],
        (None, Some(a)) => a.clone(),
        (None, None) => vec![],
    };
    let usable: Vec<&SocketAddr> = cands.iter().filter(|a| plan.ipv6 || a.is_ipv4() || literal.is_some()).collect();
    let classes: Vec<Egress> = usable.iter().map(|a| refmodel::classify(a.ip()).0).collect();
    for a in &usable {
        let (class, name) = refmodel::classify(a.ip());
        out.cell(format!("dest:{}:{:?}", name, class));
    }
    let w = warning_code(o);

    // the establishment time-out covers resolution and connect; tokio's timer wheel has a
    // granularity of one millisecond, so durations within 2 ms of the limit are undecided
    let limit = plan.establish_timeout_us;
    let near = |d: u64| d + 2_000 > limit && d < limit + 2_000;
    let timed_out_302 = status == 502 && w == Some(302) && my_connects.len() <= 1;

    // a resolver slower than the limit is a time-out whatever it would have answered
    if literal.is_none() && r.dns.is_some() && !matches!(r.dns, Some(DnsP::Never)) {
        if r.dns_delay_us >= limit + 2_000 {
            if !timed_out_302 || !my_connects.is_empty() {
                c10(
                    out,
                    format!("resp:{}:slow-resolver-status-{}-warning-{:?}", proto, status, w),
                    format!("request {}: resolver slower than the establishment time-out; got {} / {:?}", i, status, w),
                );
            }
            return;
        }
        if near(r.dns_delay_us) && timed_out_302 {
            return;
        }
    }

    // resolver failures
    match &r.dns {
        Some(DnsP::Error) | Some(DnsP::Empty) if literal.is_none() => {
            if r.dns_delay_us >= limit + 2_000 || (near(r.dns_delay_us) && timed_out_302) {
                if !timed_out_302 {
                    c10(
                        out,
                        format!("resp:{}:slow-resolver-status-{}-warning-{:?}", proto, status, w),
                        format!("request {}: resolver slower than the establishment time-out; got {} / {:?}", i, status, w),
                    );
                }
                return;
            }
            if status != 502 || !my_connects.is_empty() {
                c10(
                    out,
                    format!("resp:{}:resolver-failure-status-{}", proto, status),
                    format!("request {} ({}) with failing resolver answered {}", i, r.target, status),
                );
            } else if w != Some(300) {
                c10(
                    out,
                    format!("resp:{}:resolver-failure-warning-{:?}", proto, w),
                    format!("request {}: 502 with warning {:?} instead of 300", i, w),
                );
            }
            return;
        }
        Some(DnsP::Never) if literal.is_none() => {
            if status != 502 || w != Some(302) {
                c10(
                    out,
                    format!("resp:{}:resolver-never-status-{}-warning-{:?}", proto, status, w),
                    format!("request {}: resolver never answered; got {} / {:?}", i, status, w),
                );
            }
            return;
        }
        _ => {}
    }
    if usable.is_empty() {
        // only IPv6 answers with ipv6_available = false: some refusal, details open
        if status == 200 {
            c10(
                out,
                format!("resp:{}:200-without-usable-address", proto),
                format!("request {} answered 200 although no answer was usable", i),
            );
        }
        return;
    }

    // policy verdicts
    let all_refused = policy_on && classes.iter().all(|c| *c == Egress::MustRefuse);
    let first_allowed = classes.iter().position(|c| !policy_on || *c == Egress::MustAllow);
    let any_either = policy_on && classes.iter().any(|c| *c == Egress::Either);
    if all_refused {
        if !my_connects.is_empty() {
            return; // reported above
        }
        let hosthdr = has_header(o, "x-adguard-vpn-error");
        // the statement names both codes without tying them to address classes
        let ok_code = matches!(w, Some(310) | Some(311));
        if status != 502 || !ok_code {
            out.violate(
                "C03",
                format!("egress:{}:refusal-reported-as-{}-{:?}", proto, status, w),
                format!("request {} ({}) to refused addresses {:?}: status {} warning {:?}", i, r.target, usable, status, w),
            );
        } else if {
            // 311 is the loopback code, 310 the non-routable one (C10): decided where the
            // candidates leave no doubt - all plainly loopback (127/8, ::1), or none loopback in
            // any spelling (IPv4-mapped and IPv4-compatible forms stay open)
            let plain_lo = |a: &&SocketAddr| match a.ip() {
                std::net::IpAddr::V4(v) => v.is_loopback(),
                std::net::IpAddr::V6(v) => v.is_loopback(),
            };
            let any_lo = |a: &&SocketAddr| match a.ip() {
                std::net::IpAddr::V4(v) => v.is_loopback(),
                std::net::IpAddr::V6(v) => {
                    let o = v.octets();
                    v.is_loopback() || (o[..10] == [0u8; 10] && o[12] == 127)
                }
            };
            let want = if !usable.is_empty() && usable.iter().all(plain_lo) {
                Some(311)
            } else if !usable.iter().any(any_lo) {
                Some(310)
            } else {
                None
            };
            want.is_some() && w != want
        } {
            c10(
                out,
                format!("resp:{}:policy-refusal-coded-{:?}-for-{}", proto, w, if w == Some(310) { "loopback" } else { "non-routable" }),
                format!("request {} ({}) to {:?}: warning {:?}, the documents give 311 to loopback and 310 to other non-routable destinations", i, r.target, usable, w),
            );
        } else if hosthdr.is_none() {
            c10(
                out,
                format!("resp:{}:31x-without-host-header", proto),
                format!("request {}: warning {:?} without the offending host name", i, w),
            );
        }
        return;
    }
    if any_either {
        // the policy may or may not refuse: only forbid a connect to a must-refuse address
        return;
    }
    // from here on the policy must not refuse: some candidate is must-allow (or policy is off)
    if matches!(w, Some(310) | Some(311)) {
        out.violate(
            "C03",
            format!("egress:{}:global-destination-refused", proto),
            format!(
                "request {} ({}) with routable candidates {:?} was refused with warning {:?}",
                i, r.target, usable, w
            ),
        );
        return;
    }
    let _ = first_allowed;
    // outcome of the connection attempt
    let expect: (u16, Option<u16>) = match r.conn {
        ConnP::Ok => (200, None),
        ConnP::Refused | ConnP::Other | ConnP::Emfile => (502, Some(300)),
        ConnP::NetUnreachable | ConnP::HostUnreachable => (502, Some(301)),
        ConnP::TimedOut | ConnP::Never => (502, Some(302)),
    };
    // a slow connect beyond the establishment time-out is a time-out whatever comes later
    let total_delay = r.conn_delay_us + if literal.is_none() { r.dns_delay_us } else { 0 };
    let expect = if r.conn == ConnP::Never {
        expect
    } else if total_delay >= limit + 2_000 {
        (502, Some(302))
    } else if near(total_delay) {
        if timed_out_302 {
            return;
        }
        expect
    } else {
        expect
    };
    let dns_part = if literal.is_none() { r.dns_delay_us } else { 0 };
    if my_connects.is_empty() && dns_part + 2_000 < limit {
        c10(
            out,
            format!("resp:{}:no-connect-attempt", proto),
            format!("request {} ({}) never led to a connect; status {}", i, r.target, status),
        );
        return;
    }
    if r.bad_framing != 0 && !is_connect {
        // what a request with contradictory framing is answered is not C10's business
        out.cell("plain-http:bad-framing");
        return;
    }
    if status != expect.0 || (expect.0 == 502 && w != expect.1) {
        c10(
            out,
            format!("resp:{}:{:?}:got-{}-{:?}", proto, r.conn, status, w),
            format!(
                "request {} ({} {}), connect outcome {:?}: expected {} / {:?}, got {} / {:?}",
                i, r.method, r.target, r.conn, expect.0, expect.1, status, w
            ),
        );
        return;
    }
    if status == 200 && is_connect {
        if !o.body.starts_with(&banner(i)) {
            c10(
                out,
                format!("resp:{}:wrong-destination", proto),
                format!("request {}: tunnel delivered {:?} instead of its destination's banner", i, String::from_utf8_lossy(&o.body)),
            );
        }
    }
}

