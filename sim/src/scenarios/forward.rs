//! C17: plain-HTTP forwarding on the tunnel channel. A non-CONNECT request goes to a strict
//! simulated origin that checks what it receives and answers per plan (1xx prefixes,
//! Content-Length / chunked / close-delimited / bodiless), under segmentation of the origin's
//! bytes and back-pressure from the client.

use crate::actors::*;
use crate::endpoint::{self, EpConfig};
use crate::prng::Rng;
use crate::scenario::*;
use crate::sim::{self, Outcome};
use crate::world::{self, DnsOutcome, DnsPlan, EpFaults, HostPlan, PeerConn, PeerRead};
use bytes::Bytes;
use serde::{Deserialize, Serialize};
use serde_json::Value;
use std::net::SocketAddr;
use std::sync::{Arc, Mutex};
use std::time::Duration;

pub struct Forward;

#[derive(Clone, Debug, Serialize, Deserialize, PartialEq)]
pub enum ReqBody {
    None,
    /// Content-Length
    Sized(usize),
    /// HTTP/1.1: chunked by the client; HTTP/2: DATA frames without a declared length
    Unsized(usize),
}

#[derive(Clone, Debug, Serialize, Deserialize, PartialEq)]
pub enum RespBody {
    /// no body by definition (HEAD, 204, 304) — the origin sends none
    Bodiless,
    Sized(usize),
    /// chunk sizes; extensions on every `ext_every`-th chunk
    Chunked(Vec<usize>, u32),
    CloseDelimited(usize),
}

#[derive(Clone, Debug, Serialize, Deserialize)]
pub struct FPlan {
    pub seed: u64,
    pub h2: bool,
    pub method: String,
    pub path: String,
    pub port: Option<u16>,
    pub req_headers: Vec<(String, String)>,
    pub req_body: ReqBody,
    pub status: u16,
    pub interim: Vec<u16>,
    pub resp_headers: Vec<(String, String)>,
    pub resp_body: RespBody,
    /// framing headers on a response that has no body by definition: 0 = the usual ones
    /// (Content-Length on HEAD, none otherwise), 1 = Transfer-Encoding: chunked, 2 = the
    /// Content-Length of the representation (HEAD and 304 only; RFC 7230 3.3.1 / 3.3.2)
    #[serde(default)]
    pub bodiless_framing: u8,
    /// the origin closes its side after the response
    pub origin_closes: bool,
    /// segmentation of the origin's bytes
    pub origin_cuts: Vec<usize>,
    pub origin_gap_us: u64,
    pub host_read_cut: CutP,
    /// client side back-pressure
    pub client_window: u32,
    pub to_client_cap: usize,
    pub client_read_max: usize,
    pub client_read_gap_us: u64,
}

const ORIGIN: &str = "www.origin.test";

fn origin_addr(port: u16) -> SocketAddr {
    SocketAddr::new("93.184.216.50".parse().unwrap(), port)
}

const HOP: &[&str] = &["proxy-connection", "keep-alive", "upgrade", "connection", "transfer-encoding", "proxy-authorization", "te", "trailer"];

impl Scenario for Forward {
    fn name(&self) -> &'static str {
        "forward"
    }

    fn budget(&self, tier: Tier) -> u64 {
        match tier {
            Tier::Quick => 50_000,
            Tier::Thorough => 2_500_000,
        }
    }

    fn generate(&self, seed: u64, index: u64, _tier: Tier) -> Value {
        let mut rng = Rng::new(seed).fork(&format!("forward{}", index));
        let h2 = rng.chance(1, 2);
        let method = (*rng.pick(&["GET", "GET", "POST", "POST", "HEAD", "PUT", "OPTIONS", "DELETE"])).to_string();
        let path = match rng.below(5) {
            0 => "/".to_string(),
            1 => format!("/a/b/c{}", rng.below(100)),
            2 => format!("/search?q={}&x=%20y", rng.below(1000)),
            3 => "/p;param?".to_string(),
            _ => format!("/{}", "seg/".repeat(1 + rng.usize_below(8))),
        };
        let req_body = if matches!(method.as_str(), "POST" | "PUT") {
            match rng.below(3) {
                0 => ReqBody::Sized(rng.size(0, 16 * 1024) as usize),
                1 => ReqBody::Unsized(rng.size(1, 16 * 1024) as usize),
                _ => ReqBody::Sized(rng.usize_below(64)),
            }
        } else if matches!(method.as_str(), "DELETE" | "GET" | "OPTIONS") && rng.chance(1, 3) {
            // a body on a method that seldom has one is still a body (RFC 7231 4.3.1: "no
            // defined semantics", not "no body")
            ReqBody::Sized(rng.usize_below(100))
        } else {
            ReqBody::None
        };
        let mut req_headers = vec![("Accept".to_string(), "*/*".to_string())];
        if rng.chance(1, 3) {
            // a value with bytes above 0x7f (obs-text, RFC 7230 3.2.6): opaque, passed on as it is
            req_headers.push(("Content-Disposition".into(), format!("attachment; filename=\"r\u{e9}sum\u{e9}-{}.pdf\"", rng.below(100))));
        }
        if rng.chance(1, 2) {
            req_headers.push(("X-Custom".into(), format!("v{}", rng.below(1000))));
        }
        if rng.chance(1, 3) {
            req_headers.push(("Accept-Encoding".into(), "gzip, br".into()));
        }
        if !h2 && rng.chance(1, 3) {
            req_headers.push(("Proxy-Connection".into(), "keep-alive".into()));
        }
        let status = *rng.pick(&[200u16, 200, 200, 201, 204, 304, 404, 500, 206]);
        let bodiless = method == "HEAD" || status == 204 || status == 304;
        let blen = |rng: &mut Rng| match rng.below(4) {
            0 => 0usize,
            1 => 1 + rng.usize_below(32),
            _ => rng.size(1, 64 * 1024) as usize,
        };
        let resp_body = if bodiless {
            RespBody::Bodiless
        } else {
            match rng.below(3) {
                0 => RespBody::Sized(blen(&mut rng)),
                1 => {
                    let total = blen(&mut rng);
                    let mut chunks = Vec::new();
                    let mut left = total;
                    while left > 0 && chunks.len() < 40 {
                        let c = match rng.below(4) {
                            0 => 1,
                            1 => 1 + rng.usize_below(16),
                            _ => 1 + rng.usize_below(left),
                        }
                        .min(left);
                        chunks.push(c);
                        left -= c;
                    }
                    if left > 0 {
                        chunks.push(left);
                    }
                    RespBody::Chunked(chunks, if rng.chance(1, 3) { 1 + rng.below(3) as u32 } else { 0 })
                }
                _ => RespBody::CloseDelimited(blen(&mut rng)),
            }
        };
        let mut resp_headers = vec![("Content-Type".to_string(), "application/octet-stream".to_string())];
        if rng.chance(1, 2) {
            resp_headers.push(("X-Origin".into(), format!("o{}", rng.below(1000))));
        }
        if rng.chance(1, 3) {
            resp_headers.push(("Set-Cookie".into(), "a=b; Path=/".into()));
        }
        if rng.chance(1, 4) {
            resp_headers.push(("Keep-Alive".into(), "timeout=5".into()));
        }
        let interim = match rng.below(6) {
            0 => vec![100],
            1 => vec![103],
            2 => vec![100, 103],
            _ => vec![],
        };
        let origin_closes = matches!(resp_body, RespBody::CloseDelimited(_)) || rng.chance(1, 2);
        let n_cuts = match rng.below(5) {
            0 => 0,
            1 => 1,
            2 => 2,
            3 => 200,
            _ => 1 + rng.usize_below(10),
        };
        let plan = FPlan {
            seed: rng.next_u64(),
            h2,
            method,
            path,
            port: if rng.chance(1, 4) { Some(8080) } else { None },
            req_headers,
            req_body,
            status,
            interim,
            resp_headers,
            resp_body,
            bodiless_framing: if bodiless && rng.chance(1, 2) { 1 + rng.below(2) as u8 } else { 0 },
            origin_closes,
            origin_cuts: (0..n_cuts)
                .map(|_| if n_cuts >= 200 { 1 } else { 1 + rng.usize_below(400) })
                .collect(),
            origin_gap_us: if rng.chance(1, 2) { 0 } else { rng.size(1, 5_000) },
            host_read_cut: CutP::draw(&mut rng, 4096),
            client_window: if rng.chance(1, 2) { 65_535 } else { rng.size(1, 65_535) as u32 },
            to_client_cap: rng.size(16, 64 * 1024) as usize,
            client_read_max: if rng.chance(1, 2) { 64 * 1024 } else { rng.size(1, 4096) as usize },
            client_read_gap_us: if rng.chance(2, 3) { 0 } else { rng.size(1, 2_000) },
        };
        to_plan(&plan)
    }

    fn execute(&self, plan: &Value) -> Outcome {
        let plan: FPlan = match from_plan(plan) {
            Ok(p) => p,
            Err(e) => return harness_error(e),
        };
        let p2 = plan.clone();
        let (obs, rep) = sim::run(plan.seed, Duration::from_secs(3600), move || run(p2));
        let mut out = Outcome::default();
        match obs {
            Some(obs) => judge(&plan, &obs, &mut out),
            None => {
                if !rep.main_panicked {
                    out.inconclusive = true;
                }
            }
        }
        sim::finish(out, &rep)
    }
}

fn req_body_bytes(p: &FPlan) -> Vec<u8> {
    match p.req_body {
        ReqBody::None => vec![],
        ReqBody::Sized(n) | ReqBody::Unsized(n) => pattern(p.seed ^ 0x77, 0, n),
    }
}

fn resp_body_bytes(p: &FPlan) -> Vec<u8> {
    let n = match &p.resp_body {
        RespBody::Bodiless => 0,
        RespBody::Sized(n) | RespBody::CloseDelimited(n) => *n,
        RespBody::Chunked(c, _) => c.iter().sum(),
    };
    pattern(p.seed ^ 0x99, 0, n)
}

fn origin_response_bytes(p: &FPlan) -> Vec<u8> {
    let mut v = Vec::new();
    for s in &p.interim {
        v.extend_from_slice(format!("HTTP/1.1 {} Interim\r\nX-Interim: {}\r\n\r\n", s, s).as_bytes());
    }
    v.extend_from_slice(format!("HTTP/1.1 {} Status\r\n", p.status).as_bytes());
    for (k, val) in &p.resp_headers {
        v.extend_from_slice(format!("{}: {}\r\n", k, val).as_bytes());
    }
    let body = resp_body_bytes(p);
    match &p.resp_body {
        RespBody::Bodiless => {
            let may_frame = p.method == "HEAD" || p.status == 304;
            match (p.bodiless_framing, may_frame) {
                (1, true) => v.extend_from_slice(b"Transfer-Encoding: chunked\r\n"),
                (2, true) => v.extend_from_slice(b"Content-Length: 77\r\n"),
                _ => {
                    if p.method == "HEAD" {
                        v.extend_from_slice(b"Content-Length: 1234\r\n");
                    }
                }
            }
            v.extend_from_slice(b"\r\n");
        }
        RespBody::Sized(n) => {
            v.extend_from_slice(format!("Content-Length: {}\r\n\r\n", n).as_bytes());
            v.extend_from_slice(&body);
        }
        RespBody::CloseDelimited(_) => {
            v.extend_from_slice(b"Connection: close\r\n\r\n");
            v.extend_from_slice(&body);
        }
        RespBody::Chunked(chunks, ext) => {
            v.extend_from_slice(b"Transfer-Encoding: chunked\r\n\r\n");
            let mut off = 0;
            for (i, c) in chunks.iter().enumerate() {
                if *ext > 0 && i as u32 % *ext == 0 {
                    v.extend_from_slice(format!("{:x};ext=1\r\n", c).as_bytes());
                } else {
                    v.extend_from_slice(format!("{:X}\r\n", c).as_bytes());
                }
                v.extend_from_slice(&body[off..off + c]);
                v.extend_from_slice(b"\r\n");
                off += c;
            }
            v.extend_from_slice(b"0\r\n\r\n");
        }
    }
    v
}

#[derive(Debug, Default, Clone)]
pub struct Obs {
    pub setup_error: Option<String>,
    // origin's view
    pub origin_connected: bool,
    pub origin_raw: Vec<u8>,
    pub origin_problem: Option<String>,
    pub origin_request_line: String,
    pub origin_headers: Vec<(String, String)>,
    pub origin_body: Vec<u8>,
    pub origin_body_complete: bool,
    // client's view
    pub interim_seen: Vec<u16>,
    pub status: Option<u16>,
    pub headers: Vec<(String, String)>,
    pub body: Vec<u8>,
    pub raw_after_head: Vec<u8>,
    pub end_clean: Option<bool>,
    pub t_end: Option<u64>,
    pub t_origin_done: Option<u64>,
    pub client_error: Option<String>,
    pub malformed: Option<String>,
}

type Shared<T> = Arc<Mutex<T>>;

/// Strict reader of one HTTP/1.1 request at the origin
async fn origin_read_request(conn: &PeerConn, obs: &Shared<Obs>) -> Result<(), String> {
    let mut buf = Vec::new();
    let head_end = loop {
        if let Some(i) = find(&buf, b"\r\n\r\n") {
            break i + 4;
        }
        match conn.read(4096).await {
            PeerRead::Data(d) => {
                buf.extend_from_slice(&d);
                obs.lock().unwrap().origin_raw = buf.clone();
            }
            _ => return Err("connection ended before a complete request head".into()),
        }
    };
    let head = String::from_utf8(buf[..head_end - 4].to_vec()).map_err(|_| "request head is not UTF-8")?;
    let mut lines = head.split("\r\n");
    let rl = lines.next().unwrap_or("").to_string();
    let mut headers = Vec::new();
    for l in lines {
        let (k, v) = l.split_once(':').ok_or_else(|| format!("header line without colon: {:?}", l))?;
        if k.is_empty() || k.contains(' ') {
            return Err(format!("bad header name {:?}", k));
        }
        headers.push((k.to_ascii_lowercase(), v.trim().to_string()));
    }
    {
        let mut o = obs.lock().unwrap();
        o.origin_request_line = rl.clone();
        o.origin_headers = headers.clone();
    }
    let cl: Vec<&(String, String)> = headers.iter().filter(|(k, _)| k == "content-length").collect();
    let te = headers.iter().any(|(k, v)| k == "transfer-encoding" && v.to_ascii_lowercase().contains("chunked"));
    let mut rest = buf[head_end..].to_vec();
    if te {
        // de-chunk strictly
        let mut body = Vec::new();
        loop {
            let line_end = loop {
                if let Some(i) = find(&rest, b"\r\n") {
                    break i;
                }
                match conn.read(4096).await {
                    PeerRead::Data(d) => rest.extend_from_slice(&d),
                    _ => return Err("connection ended inside chunked request body".into()),
                }
            };
            let line = String::from_utf8_lossy(&rest[..line_end]).into_owned();
            let size = usize::from_str_radix(line.split(';').next().unwrap_or("").trim(), 16)
                .map_err(|_| format!("bad chunk size line {:?}", line))?;
            rest.drain(..line_end + 2);
            while rest.len() < size + 2 {
                match conn.read(4096).await {
                    PeerRead::Data(d) => rest.extend_from_slice(&d),
                    _ => return Err("connection ended inside a request chunk".into()),
                }
            }
            body.extend_from_slice(&rest[..size]);
            if &rest[size..size + 2] != b"\r\n" {
                return Err("request chunk not followed by CRLF".into());
            }
            rest.drain(..size + 2);
            obs.lock().unwrap().origin_body = body.clone();
            if size == 0 {
                break;
            }
        }
        obs.lock().unwrap().origin_body_complete = true;
    } else if let Some((_, v)) = cl.first() {
        let n: usize = v.parse().map_err(|_| format!("bad content-length {:?}", v))?;
        while rest.len() < n {
            match conn.read(4096).await {
                PeerRead::Data(d) => rest.extend_from_slice(&d),
                _ => {
                    obs.lock().unwrap().origin_body = rest.clone();
                    return Err(format!("connection ended after {} of {} body bytes", rest.len(), n));
                }
            }
        }
        let mut o = obs.lock().unwrap();
        o.origin_body = rest[..n].to_vec();
        o.origin_body_complete = true;
        if rest.len() > n {
            return Err(format!("{} bytes after the declared body", rest.len() - n));
        }
    } else {
        // no framing: no body; anything that follows is not part of this request
        let mut o = obs.lock().unwrap();
        o.origin_body_complete = true;
        if !rest.is_empty() {
            o.origin_body = rest.clone();
            return Err(format!("{} unframed bytes after a request head without Content-Length or Transfer-Encoding", rest.len()));
        }
    }
    Ok(())
}

async fn run(plan: FPlan) -> Obs {
    let obs: Shared<Obs> = Arc::new(Mutex::new(Obs::default()));
    let cfg = EpConfig::default();
    let ep = match endpoint::build(&cfg, endpoint::registry(&cfg)) {
        Ok(e) => e,
        Err(e) => {
            obs.lock().unwrap().setup_error = Some(e);
            return obs.lock().unwrap().clone();
        }
    };
    let port = plan.port.unwrap_or(80);
    world::with(|w| {
        w.dns.insert(
            format!("{}:{}", ORIGIN, port),
            DnsPlan {
                outcomes: vec![DnsOutcome::Answer(vec![origin_addr(port)])],
                delay: Duration::from_micros(100),
            },
        );
        w.hosts.insert(
            origin_addr(port),
            HostPlan {
                faults: EpFaults {
                    read_cut: plan.host_read_cut.to_cut(),
                    ..Default::default()
                },
                ..HostPlan::default()
            },
        );
    });
    let origin = {
        let obs = obs.clone();
        let plan = plan.clone();
        tokio::spawn(async move {
            let (_, conn) = world::next_established().await;
            obs.lock().unwrap().origin_connected = true;
            let r = origin_read_request(&conn, &obs).await;
            if let Err(e) = &r {
                obs.lock().unwrap().origin_problem = Some(e.clone());
            }
            // answer regardless, so that the client side can be judged too
            let resp = origin_response_bytes(&plan);
            let gaps: Vec<u64> = plan.origin_cuts.iter().map(|_| plan.origin_gap_us).collect();
            let _ = write_pieces(&conn, &resp, &plan.origin_cuts, &gaps).await;
            obs.lock().unwrap().t_origin_done = Some(world::now_us());
            if plan.origin_closes {
                conn.shutdown_write();
            }
            // anything else the endpoint sends
            loop {
                match conn.read(4096).await {
                    PeerRead::Data(d) => {
                        let mut o = obs.lock().unwrap();
                        if o.origin_problem.is_none() && !d.is_empty() {
                            o.origin_problem = Some(format!("{} unexpected bytes after the request", d.len()));
                        }
                    }
                    _ => break,
                }
            }
        })
    };

    let (stream, peer) = world::client_conn(
        "203.0.113.30:40000".parse().unwrap(),
        plan.to_client_cap,
        64 * 1024,
        EpFaults::default(),
    );
    let session = {
        let core = ep.core.clone();
        let h2 = plan.h2;
        tokio::spawn(async move { core.verif_serve_session(h2, stream, "vpn.example".into(), None).await })
    };
    let authority = match plan.port {
        Some(p) => format!("{}:{}", ORIGIN, p),
        None => ORIGIN.to_string(),
    };
    let client = {
        let obs = obs.clone();
        let plan = plan.clone();
        let peer = peer.clone();
        async move {
            if plan.h2 {
                h2_client(plan, authority, peer, obs).await
            } else {
                h1_client(plan, authority, peer, obs).await
            }
        }
    };
    // sleeps round up to the timer wheel's millisecond: one pause per read of the client
    let reads = resp_body_bytes(&plan).len() as u64 / plan.client_read_max.max(1) as u64 + 2_000;
    let pause = if plan.client_read_gap_us > 0 { plan.client_read_gap_us.max(1_000) } else { 0 };
    let window = Duration::from_micros(
        60_000_000 + plan.origin_cuts.len() as u64 * plan.origin_gap_us.max(1_000) + 2 * reads * pause,
    );
    let _ = tokio::time::timeout(window, client).await;
    tokio::time::sleep(Duration::from_secs(2)).await;
    peer.shutdown_write();
    peer.stop_reading();
    tokio::time::sleep(Duration::from_secs(2)).await;
    session.abort();
    origin.abort();
    let o = obs.lock().unwrap().clone();
    o
}

async fn h2_client(plan: FPlan, authority: String, peer: PeerConn, obs: Shared<Obs>) {
    let c = match h2_connect(
        peer,
        H2Params {
            initial_window: plan.client_window,
            ..Default::default()
        },
        Rng::new(plan.seed),
    )
    .await
    {
        Ok(c) => c,
        Err(e) => {
            obs.lock().unwrap().setup_error = Some(e);
            return;
        }
    };
    let mut send = c.send;
    let mut b = http::Request::builder()
        .method(plan.method.as_str())
        .uri(format!("http://{}{}", authority, plan.path))
        .header("proxy-authorization", basic_auth("u0", "p0-secret-password"));
    for (k, v) in &plan.req_headers {
        b = b.header(k.as_str(), v.as_bytes());
    }
    let body = req_body_bytes(&plan);
    if let ReqBody::Sized(n) = plan.req_body {
        b = b.header("content-length", n.to_string());
    }
    let req = b.body(()).unwrap();
    let _ = std::future::poll_fn(|cx| send.poll_ready(cx)).await;
    let no_body = plan.req_body == ReqBody::None;
    let (resp, mut tx) = match send.send_request(req, no_body) {
        Ok(x) => x,
        Err(e) => {
            obs.lock().unwrap().client_error = Some(e.to_string());
            return;
        }
    };
    if !no_body {
        let mut off = 0;
        while off < body.len() {
            tx.reserve_capacity(body.len() - off);
            match std::future::poll_fn(|cx| tx.poll_capacity(cx)).await {
                Some(Ok(n)) => {
                    let n = n.min(body.len() - off);
                    if tx.send_data(Bytes::copy_from_slice(&body[off..off + n]), false).is_err() {
                        break;
                    }
                    off += n;
                }
                _ => break,
            }
        }
        let _ = tx.send_data(Bytes::new(), true);
    }
    let resp = match resp.await {
        Ok(r) => r,
        Err(e) => {
            obs.lock().unwrap().client_error = Some(format!("response: {}", e));
            return;
        }
    };
    {
        let mut o = obs.lock().unwrap();
        o.status = Some(resp.status().as_u16());
        o.headers = resp
            .headers()
            .iter()
            .map(|(k, v)| (k.as_str().to_string(), String::from_utf8_lossy(v.as_bytes()).into_owned()))
            .collect();
    }
    let mut rbody = resp.into_body();
    let mut rng = Rng::new(plan.seed ^ 5);
    loop {
        match rbody.data().await {
            Some(Ok(d)) => {
                let (before, after) = {
                    let mut o = obs.lock().unwrap();
                    let b = o.body.len();
                    o.body.extend_from_slice(&d);
                    (b, o.body.len())
                };
                // one pause per `client_read_max` bytes, whatever the frame sizes
                let m = plan.client_read_max.max(1);
                if plan.client_read_gap_us > 0 && before / m != after / m {
                    sleep_us(rng.range(0, plan.client_read_gap_us)).await;
                }
                let _ = rbody.flow_control().release_capacity(d.len());
            }
            Some(Err(e)) => {
                let mut o = obs.lock().unwrap();
                o.end_clean = Some(false);
                o.client_error = Some(e.to_string());
                o.t_end = Some(world::now_us());
                return;
            }
            None => {
                let mut o = obs.lock().unwrap();
                o.end_clean = Some(true);
                o.t_end = Some(world::now_us());
                return;
            }
        }
    }
}

async fn h1_client(plan: FPlan, authority: String, peer: PeerConn, obs: Shared<Obs>) {
    let mut head = format!("{} http://{}{} HTTP/1.1\r\nHost: {}\r\n", plan.method, authority, plan.path, authority);
    head.push_str(&format!("Proxy-Authorization: {}\r\n", basic_auth("u0", "p0-secret-password")));
    for (k, v) in &plan.req_headers {
        head.push_str(&format!("{}: {}\r\n", k, v));
    }
    let body = req_body_bytes(&plan);
    let mut wire = Vec::new();
    match plan.req_body {
        ReqBody::None => {
            head.push_str("\r\n");
            wire.extend_from_slice(head.as_bytes());
        }
        ReqBody::Sized(n) => {
            head.push_str(&format!("Content-Length: {}\r\n\r\n", n));
            wire.extend_from_slice(head.as_bytes());
            wire.extend_from_slice(&body);
        }
        ReqBody::Unsized(_) => {
            head.push_str("Transfer-Encoding: chunked\r\n\r\n");
            wire.extend_from_slice(head.as_bytes());
            let mut off = 0;
            let mut rng = Rng::new(plan.seed ^ 6);
            while off < body.len() {
                let c = (1 + rng.usize_below(4096)).min(body.len() - off);
                wire.extend_from_slice(format!("{:x}\r\n", c).as_bytes());
                wire.extend_from_slice(&body[off..off + c]);
                wire.extend_from_slice(b"\r\n");
                off += c;
            }
            wire.extend_from_slice(b"0\r\n\r\n");
        }
    }
    if peer.write_all(&wire).await.is_err() {
        obs.lock().unwrap().client_error = Some("connection closed while sending the request".into());
        return;
    }
    // heads: interim ones first
    let mut buf: Vec<u8> = Vec::new();
    let mut rng = Rng::new(plan.seed ^ 5);
    let mut ended: Option<bool> = None;
    loop {
        match parse_h1_response_head(&buf) {
            Ok(Some((h, n))) => {
                buf.drain(..n);
                if (100..200).contains(&h.status) {
                    obs.lock().unwrap().interim_seen.push(h.status);
                    continue;
                }
                let mut o = obs.lock().unwrap();
                o.status = Some(h.status);
                o.headers = h
                    .headers
                    .iter()
                    .map(|(k, v)| (k.to_ascii_lowercase(), String::from_utf8_lossy(v).into_owned()))
                    .collect();
                break;
            }
            Ok(None) => {}
            Err(e) => {
                obs.lock().unwrap().malformed = Some(e);
                return;
            }
        }
        match peer.read(plan.client_read_max).await {
            PeerRead::Data(d) => buf.extend_from_slice(&d),
            PeerRead::Eof => {
                ended = Some(true);
                break;
            }
            PeerRead::Reset => {
                ended = Some(false);
                break;
            }
        }
    }
    if obs.lock().unwrap().status.is_none() {
        let mut o = obs.lock().unwrap();
        o.end_clean = ended;
        o.client_error = Some("connection ended before a final response head".into());
        return;
    }
    // the rest: read until the message is complete by its own framing, then a little longer
    let headers = obs.lock().unwrap().headers.clone();
    let cl: Option<usize> = headers.iter().find(|(k, _)| k == "content-length").and_then(|(_, v)| v.parse().ok());
    let chunked = headers.iter().any(|(k, v)| k == "transfer-encoding" && v.to_ascii_lowercase().contains("chunked"));
    let status = obs.lock().unwrap().status.unwrap();
    let bodiless = plan.method == "HEAD" || status == 204 || status == 304;
    let mut raw = buf;
    let mut complete_at: Option<u64> = None;
    let deadline_after_complete = 3_000_000u64;
    loop {
        let complete = if bodiless {
            true
        } else if chunked {
            dechunk(&raw).map(|(_, done, _)| done).unwrap_or(false)
        } else if let Some(n) = cl {
            raw.len() >= n
        } else {
            false
        };
        if complete && complete_at.is_none() {
            complete_at = Some(world::now_us());
        }
        if ended.is_some() {
            break;
        }
        let wait = match complete_at {
            Some(t) => {
                let el = world::now_us() - t;
                if el >= deadline_after_complete {
                    break;
                }
                deadline_after_complete - el
            }
            None => 3_600_000_000,
        };
        match tokio::time::timeout(Duration::from_micros(wait), peer.read(plan.client_read_max)).await {
            Ok(PeerRead::Data(d)) => {
                raw.extend_from_slice(&d);
                if plan.client_read_gap_us > 0 {
                    sleep_us(rng.range(0, plan.client_read_gap_us)).await;
                }
            }
            Ok(PeerRead::Eof) => ended = Some(true),
            Ok(PeerRead::Reset) => ended = Some(false),
            Err(_) => break,
        }
    }
    let mut o = obs.lock().unwrap();
    o.raw_after_head = raw.clone();
    o.end_clean = ended;
    o.t_end = Some(world::now_us());
    o.body = if bodiless {
        raw
    } else if chunked {
        match dechunk(&raw) {
            Ok((b, done, extra)) => {
                if !done {
                    o.client_error = Some("chunked response not terminated".into());
                } else if extra > 0 {
                    o.client_error = Some(format!("{} bytes after the terminating chunk", extra));
                }
                b
            }
            Err(e) => {
                o.client_error = Some(format!("response chunking broken: {}", e));
                Vec::new()
            }
        }
    } else if let Some(n) = cl {
        if raw.len() > n {
            o.client_error = Some(format!("{} bytes after the declared body", raw.len() - n));
        }
        raw[..n.min(raw.len())].to_vec()
    } else {
        raw
    };
}

/// Reference de-chunking: (body so far, terminated?, bytes after the end)
fn dechunk(raw: &[u8]) -> Result<(Vec<u8>, bool, usize), String> {
    let mut body = Vec::new();
    let mut i = 0;
    loop {
        let le = match find(&raw[i..], b"\r\n") {
            Some(x) => i + x,
            None => return Ok((body, false, 0)),
        };
        let line = std::str::from_utf8(&raw[i..le]).map_err(|_| "chunk size line not UTF-8")?;
        let size = usize::from_str_radix(line.split(';').next().unwrap_or("").trim(), 16)
            .map_err(|_| format!("bad chunk size {:?}", line))?;
        let start = le + 2;
        if size == 0 {
            // no trailers in these plans: the terminating CRLF
            if raw.len() < start + 2 {
                return Ok((body, false, 0));
            }
            if &raw[start..start + 2] != b"\r\n" {
                return Err("terminating chunk not followed by CRLF".into());
            }
            return Ok((body, true, raw.len() - start - 2));
        }
        if raw.len() < start + size + 2 {
            body.extend_from_slice(&raw[start..raw.len().min(start + size)]);
            return Ok((body, false, 0));
        }
        body.extend_from_slice(&raw[start..start + size]);
        if &raw[start + size..start + size + 2] != b"\r\n" {
            return Err("chunk not followed by CRLF".into());
        }
        i = start + size + 2;
    }
}

fn judge(plan: &FPlan, o: &Obs, out: &mut Outcome) {
    if let Some(e) = &o.setup_error {
        out.violate("HARNESS", "forward-setup", e.clone());
        return;
    }
    let proto = if plan.h2 { "h2" } else { "h1" };
    let rb = match &plan.resp_body {
        RespBody::Bodiless => "bodiless",
        RespBody::Sized(_) => "sized",
        RespBody::Chunked(..) => "chunked",
        RespBody::CloseDelimited(_) => "close-delimited",
    };
    let qb = match plan.req_body {
        ReqBody::None => "nobody",
        ReqBody::Sized(_) => "sized",
        ReqBody::Unsized(_) => "unsized",
    };
    out.cell(format!("{}:{}:req-{}:resp-{}:interim{}", proto, plan.method, qb, rb, plan.interim.len()));
    if !o.origin_connected {
        out.violate("C17", format!("forward:{}:origin-not-contacted", proto), format!("status {:?} error {:?}", o.status, o.client_error));
        return;
    }
    out.nontrivial = true;
    // ---- the request as the origin received it -------------------------------------------
    let want_target = if plan.method == "OPTIONS" && plan.path == "/" {
        // asterisk-form or "/": both address the server
        None
    } else {
        Some(plan.path.clone())
    };
    let mut parts = o.origin_request_line.splitn(3, ' ');
    let (m, t, v) = (parts.next().unwrap_or(""), parts.next().unwrap_or(""), parts.next().unwrap_or(""));
    if m != plan.method {
        out.violate("C17", format!("forward:{}:method-changed", proto), format!("origin saw {:?}", o.origin_request_line));
    }
    if let Some(w) = &want_target {
        if t != w {
            out.violate(
                "C17",
                format!("forward:{}:{}:target-changed", proto, plan.method),
                format!("client asked for {:?}, origin saw {:?}", w, o.origin_request_line),
            );
        }
    }
    if v != "HTTP/1.1" {
        out.violate("C17", format!("forward:{}:version-{}", proto, v), format!("origin saw {:?}", o.origin_request_line));
    }
    let authority = match plan.port {
        Some(p) => format!("{}:{}", ORIGIN, p),
        None => ORIGIN.to_string(),
    };
    let hosts: Vec<&(String, String)> = o.origin_headers.iter().filter(|(k, _)| k == "host").collect();
    if hosts.len() != 1 || hosts[0].1 != authority {
        out.violate("C17", format!("forward:{}:host-header", proto), format!("origin saw Host headers {:?}, expected {:?}", hosts, authority));
    }
    for (k, _) in &o.origin_headers {
        if k == "proxy-authorization" || k == "proxy-connection" {
            out.violate("C17", format!("forward:{}:hop-by-hop-forwarded:{}", proto, k), format!("origin received {}", k));
        }
    }
    for (k, v) in &plan.req_headers {
        let lk = k.to_ascii_lowercase();
        if HOP.contains(&lk.as_str()) {
            continue;
        }
        if !o.origin_headers.iter().any(|(a, b)| *a == lk && b == v) {
            out.violate("C17", format!("forward:{}:request-header-lost", proto), format!("{}: {} did not reach the origin ({:?})", k, v, o.origin_headers));
        }
    }
    if let Some(p) = &o.origin_problem {
        out.violate(
            "C17",
            format!("forward:{}:req-{}:request-framing", proto, qb),
            format!("origin: {} (request line {:?}, headers {:?})", p, o.origin_request_line, o.origin_headers),
        );
    } else if o.origin_body != req_body_bytes(plan) {
        out.violate(
            "C17",
            format!("forward:{}:req-{}:request-body-differs", proto, qb),
            format!("origin decoded {} body bytes, client sent {}", o.origin_body.len(), req_body_bytes(plan).len()),
        );
    }
    // ---- the response as the client received it ------------------------------------------
    if let Some(m) = &o.malformed {
        out.violate("C17", format!("forward:{}:malformed-response", proto), m.clone());
        return;
    }
    match o.status {
        Some(s) if s == plan.status => {}
        other => {
            let key = if !plan.h2 && !plan.interim.is_empty() && other.is_none() {
                // one finding whatever the final response looks like
                "forward:h1:interim-response-breaks-exchange".to_string()
            } else {
                format!("forward:{}:resp-{}:interim{}:status-{:?}", proto, rb, plan.interim.len(), other)
            };
            out.violate(
                "C17",
                key,
                format!(
                    "origin answered {:?} then {}, client saw interim {:?} and final {:?} ({:?})",
                    plan.interim, plan.status, o.interim_seen, other, o.client_error
                ),
            );
            return;
        }
    }
    if !plan.h2 && o.interim_seen != plan.interim {
        out.violate(
            "C17",
            format!("forward:{}:interim-responses", proto),
            format!("origin sent interim {:?}, HTTP/1.1 client saw {:?}", plan.interim, o.interim_seen),
        );
    }
    for (k, v) in &plan.resp_headers {
        let lk = k.to_ascii_lowercase();
        let present = o.headers.iter().any(|(a, b)| a.eq_ignore_ascii_case(&lk) && b == v);
        if HOP.contains(&lk.as_str()) {
            if present {
                out.violate("C17", format!("forward:{}:hop-by-hop-to-client:{}", proto, lk), format!("client received {}: {}", k, v));
            }
        } else if !present {
            out.violate("C17", format!("forward:{}:response-header-lost", proto), format!("{}: {} did not reach the client ({:?})", k, v, o.headers));
        }
    }
    if plan.h2 && o.headers.iter().any(|(k, _)| k == "transfer-encoding" || k == "connection") {
        out.violate("C17", format!("forward:{}:connection-specific-header", proto), format!("{:?}", o.headers));
    }
    let want = resp_body_bytes(plan);
    if let Some(e) = &o.client_error {
        out.violate(
            "C17",
            format!("forward:{}:resp-{}:response-broken", proto, rb),
            format!("{} (received {} of {} body bytes, end {:?})", e, o.body.len(), want.len(), o.end_clean),
        );
        return;
    }
    if o.body != want {
        let k = o.body.iter().zip(&want).position(|(a, b)| a != b).unwrap_or(o.body.len().min(want.len()));
        out.violate(
            "C17",
            format!("forward:{}:resp-{}:body-differs", proto, rb),
            format!("client decoded {} bytes, origin sent {}; first difference at {}", o.body.len(), want.len(), k),
        );
        return;
    }
    // clean end once the body is complete: decidable for HTTP/2 (END_STREAM), and for every
    // response whose end the origin marks (length, terminating chunk, or closing)
    let origin_marks_end = !matches!(plan.resp_body, RespBody::CloseDelimited(_)) || plan.origin_closes;
    if plan.h2 && origin_marks_end && o.end_clean != Some(true) {
        out.violate(
            "C17",
            format!("forward:{}:resp-{}:no-clean-end", proto, rb),
            format!("body complete ({} bytes) but the stream ended {:?}", want.len(), o.end_clean),
        );
    }
}
