//! C11: ICMP echo tunnelling. Several clients hold `_icmp` streams (PROTOCOL.md 7) on sessions
//! of the real endpoint; the raw ICMP/ICMPv6 sockets are the world's. Histories interleave
//! echo requests (segmented 7.3 records), replies and ICMP errors built around matching and
//! non-matching requests, unrelated / malformed packets from the network, and time advances
//! around the request time-out. Oracle: every echo leaves as one well-formed ICMP echo with a
//! valid checksum; every packet from the network is reported to exactly the client whose
//! pending request it answers, in the 7.4 format, or to nobody.

use crate::actors::*;
use crate::endpoint::{self, EpConfig, FRACTION_US};
use crate::prng::Rng;
use crate::refmodel::rfc1071_verify;
use crate::scenario::*;
use crate::sim::{self, Outcome};
use crate::world::{self, EpFaults, PeerConn, PeerRead};
use bytes::Bytes;
use serde::{Deserialize, Serialize};
use serde_json::Value;
use std::net::{IpAddr, Ipv4Addr, Ipv6Addr};
use std::sync::{Arc, Mutex};
use std::time::Duration;

pub struct Icmp;

const LISTEN: &str = "198.51.100.1:443";
const DSTS: &[&str] = &["93.184.216.34", "8.8.4.4", "2001:db8:7::1", "2606:4700::1111", "93.184.216.35"];
const ROUTERS: &[&str] = &["62.115.0.9", "2001:db8:ffff::9"];

#[derive(Clone, Debug, Serialize, Deserialize, PartialEq)]
pub enum RKind {
    /// data: 0 = echoed in full, 1 = truncated to half, 2 = first byte altered, 3 = four bytes appended
    EchoReply { data: u8 },
    WrongId,
    WrongSeq,
    /// an ICMP error quoting the request: `extra` bytes of the echo's data follow its header
    Error { ty: u8, code: u8, extra: usize, ihl: u8 },
    /// an error quoting somebody else's packet (UDP)
    ErrorOtherProto,
}

#[derive(Clone, Debug, Serialize, Deserialize)]
pub enum IOp {
    Request { client: usize, id: u16, dst: usize, seq: u16, ttl: u8, size: u16 },
    /// 2-4 records of one client written as one byte stream, cut at arbitrary offsets
    /// (a cut may fall inside a record while the next piece carries the rest and more);
    /// each member counts as a request for `Reply::req`: (id, dst, seq, ttl, size)
    Burst { client: usize, reqs: Vec<(u16, usize, u16, u8, u16)>, cuts: Vec<usize> },
    /// answers the n-th request of the plan (members of a Burst count one each)
    Reply { req: usize, kind: RKind, from_router: bool, outer_ihl: u8 },
    Garbage { v4: bool, shape: u8, len: usize },
    Wait { pct: u64 },
    /// the client ends its _icmp stream (never client 0, which probes the service at the end):
    /// answers to what it still had pending go to nobody, the other clients are not affected
    Leave { client: usize },
}

#[derive(Clone, Debug, Serialize, Deserialize)]
pub struct ClientP {
    pub h2: bool,
    /// 0 = whole records, 1 = byte at a time, n = pieces of n bytes
    pub piece: usize,
}

#[derive(Clone, Debug, Serialize, Deserialize)]
pub struct IPlan {
    pub seed: u64,
    pub timeout_ms: u64,
    pub queue_cap: usize,
    pub ipv6: bool,
    pub bias_carry: bool,
    pub clients: Vec<ClientP>,
    pub ops: Vec<IOp>,
    /// the five destinations the operations index (IPv4, IPv4, IPv6, IPv6, IPv4)
    #[serde(default = "default_dsts")]
    pub dsts: Vec<String>,
}

fn default_dsts() -> Vec<String> {
    DSTS.iter().map(|s| s.to_string()).collect()
}

impl IPlan {
    fn dst(&self, i: usize) -> IpAddr {
        self.dsts.get(i).map(|s| s.as_str()).unwrap_or(DSTS[i % DSTS.len()]).parse().unwrap_or_else(|_| DSTS[i % DSTS.len()].parse().unwrap())
    }
}

impl Scenario for Icmp {
    fn name(&self) -> &'static str {
        "icmp"
    }

    fn budget(&self, tier: Tier) -> u64 {
        match tier {
            Tier::Quick => 300_000,
            Tier::Thorough => 5_000_000,
        }
    }

    fn generate(&self, seed: u64, index: u64, tier: Tier) -> Value {
        let mut rng = Rng::new(seed).fork(&format!("icmp{}", index));
        let n_clients = 1 + rng.usize_below(3);
        let clients: Vec<ClientP> = (0..n_clients)
            .map(|_| ClientP {
                h2: rng.chance(2, 3),
                piece: match rng.below(4) {
                    0 => 1,
                    1 => 2 + rng.usize_below(30),
                    _ => 0,
                },
            })
            .collect();
        let ipv6 = rng.chance(3, 4);
        let n_ops = 2 + rng.usize_below(if tier == Tier::Thorough { 24 } else { 14 });
        let mut ops = Vec::new();
        let mut n_req = 0usize;
        let mut gone: Vec<usize> = Vec::new();
        // a few identifiers so that clients collide on purpose now and then
        let ids: Vec<u16> = (0..3).map(|_| if rng.chance(1, 3) { 1 } else { rng.below(65_536) as u16 }).collect();
        let mut next_seq: Vec<u16> = (0..n_clients).map(|_| rng.below(65_536) as u16).collect();
        for _ in 0..n_ops {
            match rng.below(10) {
                0..=3 => {
                    let present: Vec<usize> = (0..n_clients).filter(|c| !gone.contains(c)).collect();
                    let client = *rng.pick(&present);
                    let seq = if rng.chance(1, 8) {
                        rng.below(65_536) as u16
                    } else {
                        next_seq[client] = next_seq[client].wrapping_add(1);
                        next_seq[client]
                    };
                    // now and then the identifier and sequence number of an earlier request, of
                    // any client and to any destination (the other family included), are used again
                    let earlier: Vec<(u16, u16)> = ops
                        .iter()
                        .filter_map(|o| match o {
                            IOp::Request { id, seq, .. } => Some((*id, *seq)),
                            _ => None,
                        })
                        .collect();
                    let (id, seq, again) = if !earlier.is_empty() && rng.chance(1, 6) {
                        let (i, s) = *rng.pick(&earlier);
                        (i, s, true)
                    } else {
                        (*rng.pick(&ids), seq, false)
                    };
                    ops.push(IOp::Request {
                        client,
                        id,
                        dst: rng.usize_below(DSTS.len()),
                        seq,
                        ttl: *rng.pick(&[1u8, 2, 64, 128, 255, 0]),
                        size: match if again { rng.below(3) } else { rng.below(10) } {
                            0 => 0,
                            1 => 1,
                            2 => 56,
                            3 => 1472,
                            4 | 5 => rng.size(1, 65_000) as u16,
                            6 => 65_507,
                            _ => rng.size(1, 1_400) as u16,
                        },
                    });
                    n_req += 1;
                }
                9 => {
                    let present: Vec<usize> = (0..n_clients).filter(|c| !gone.contains(c)).collect();
                    let client = *rng.pick(&present);
                    let n = 2 + rng.usize_below(3);
                    let id = *rng.pick(&ids);
                    let reqs: Vec<(u16, usize, u16, u8, u16)> = (0..n)
                        .map(|_| {
                            next_seq[client] = next_seq[client].wrapping_add(1);
                            (id, rng.usize_below(DSTS.len()), next_seq[client], *rng.pick(&[1u8, 64, 255]), rng.size(0, 1_400) as u16)
                        })
                        .collect();
                    let total = 23 * n;
                    let cuts = (0..rng.usize_below(4)).map(|_| 1 + rng.usize_below(total - 1)).collect();
                    ops.push(IOp::Burst { client, reqs, cuts });
                    n_req += n;
                }
                4..=6 if n_req > 0 => {
                    let req = if rng.chance(2, 3) { n_req - 1 } else { rng.usize_below(n_req) };
                    let kind = match rng.below(12) {
                        0..=4 => RKind::EchoReply { data: 0 },
                        5 => RKind::EchoReply { data: 1 + rng.below(3) as u8 },
                        6 => RKind::WrongId,
                        7 => RKind::WrongSeq,
                        8 => RKind::ErrorOtherProto,
                        _ => RKind::Error {
                            ty: rng.below(5) as u8,
                            code: rng.below(16) as u8,
                            extra: *rng.pick(&[0usize, 0, 4, 56, 520]),
                            ihl: if rng.chance(1, 4) { 6 + rng.below(10) as u8 } else { 5 },
                        },
                    };
                    ops.push(IOp::Reply {
                        req,
                        kind,
                        from_router: rng.chance(1, 4),
                        outer_ihl: if rng.chance(1, 5) { 6 + rng.below(10) as u8 } else { 5 },
                    });
                }
                7 => ops.push(IOp::Garbage { v4: rng.chance(1, 2), shape: rng.below(12) as u8, len: rng.usize_below(120) }),
                8 if n_clients >= 2 && rng.chance(1, 3) => {
                    let client = 1 + rng.usize_below(n_clients - 1);
                    if !gone.contains(&client) {
                        gone.push(client);
                        ops.push(IOp::Leave { client });
                    }
                }
                _ => ops.push(IOp::Wait {
                    pct: match rng.below(6) {
                        0 => 95 + rng.below(10),
                        1 => 100 + rng.below(150),
                        _ => 1 + rng.below(60),
                    },
                }),
            }
        }
        let plan = IPlan {
            seed: rng.next_u64(),
            timeout_ms: *rng.pick(&[200u64, 1_000, 3_000]),
            queue_cap: *rng.pick(&[4usize, 16, 256]),
            ipv6,
            bias_carry: rng.chance(1, 4),
            clients,
            ops,
            // half of the runs: the five usual hosts; otherwise any address of the right family
            // (ICMP destinations are not subject to the egress policy)
            dsts: if rng.chance(1, 2) {
                default_dsts()
            } else {
                (0..5)
                    .map(|i| {
                        if i == 2 || i == 3 {
                            match rng.below(3) {
                                0 => format!("2001:db8:{:x}::{:x}", rng.below(0x10000), 1 + rng.below(0xffff)),
                                1 => format!("fe80::{:x}:{:x}", rng.below(0x10000), 1 + rng.below(0xffff)),
                                _ => format!("2a0{:x}:{:x}:{:x}:{:x}:{:x}:{:x}:{:x}:{:x}", rng.below(16), rng.below(0x10000), rng.below(0x10000), rng.below(0x10000), rng.below(0x10000), rng.below(0x10000), rng.below(0x10000), 1 + rng.below(0xffff)),
                            }
                        } else {
                            format!("{}.{}.{}.{}", 1 + rng.below(223), rng.below(256), rng.below(256), rng.below(256))
                        }
                    })
                    .collect()
            },
        };
        to_plan(&plan)
    }

    fn execute(&self, plan: &Value) -> Outcome {
        let plan: IPlan = match from_plan(plan) {
            Ok(p) => p,
            Err(e) => return harness_error(e),
        };
        let p2 = plan.clone();
        let (obs, rep) = sim::run(plan.seed, Duration::from_secs(3600), move || run(p2));
        let mut out = Outcome::default();
        match obs {
            Some(obs) => {
                if rep.panics.is_empty() {
                    judge(&plan, &obs, &mut out)
                } else {
                    // the panic is C09's finding (sim::finish reports it); what follows it is not C11's
                    out.nontrivial = true;
                    out.cell("icmp:panicked");
                }
            }
            None => {
                if !rep.main_panicked {
                    out.inconclusive = true;
                }
            }
        }
        sim::finish(out, &rep)
    }
}

#[derive(Debug, Clone)]
pub struct SentEcho {
    pub op: usize,
    pub client: usize,
    /// what was asked for: (id, index into DSTS, seq, ttl, size)
    pub want: (u16, usize, u16, u8, u16),
    pub at: u64,
    /// what the raw socket was given (None: nothing left the endpoint within a second)
    pub wire: Option<world::IcmpSent>,
    /// other packets that left in the same window (must be none)
    pub extra_packets: usize,
}

#[derive(Debug, Clone)]
pub struct Delivered {
    pub op: usize,
    pub at: u64,
    pub v4: bool,
    pub from: IpAddr,
    pub accepted_by_socket: bool,
}

#[derive(Debug, Clone)]
pub struct Report {
    pub client: usize,
    /// the op after which the record was found in the client's stream
    pub op: usize,
    pub at: u64,
    pub id: u16,
    pub src: IpAddr,
    pub ty: u8,
    pub code: u8,
    pub seq: u16,
}

#[derive(Debug, Default, Clone)]
pub struct Obs {
    pub setup_error: Option<String>,
    pub statuses: Vec<Option<u16>>,
    pub sent: Vec<SentEcho>,
    pub delivered: Vec<Delivered>,
    pub reports: Vec<Report>,
    pub rx_leftover: Vec<usize>,
    pub streams_ended: Vec<bool>,
    pub listen_ended: bool,
    pub probe_ok: Option<bool>,
}

enum ClientTx {
    H2(h2::SendStream<Bytes>),
    H1(PeerConn),
}

impl ClientTx {
    async fn send(&mut self, data: &[u8]) -> bool {
        match self {
            ClientTx::H2(tx) => {
                tx.reserve_capacity(data.len());
                match std::future::poll_fn(|cx| tx.poll_capacity(cx)).await {
                    Some(Ok(n)) if n >= data.len() => tx.send_data(Bytes::copy_from_slice(data), false).is_ok(),
                    _ => false,
                }
            }
            ClientTx::H1(c) => c.write_all(data).await.is_ok(),
        }
    }
}

struct Client {
    tx: ClientTx,
    rx: Arc<Mutex<(Vec<u8>, bool)>>,
    parsed: usize,
    _keep: Option<(h2::client::SendRequest<Bytes>, tokio::task::JoinHandle<Result<(), String>>)>,
    _session: tokio::task::JoinHandle<()>,
    _reader: tokio::task::JoinHandle<()>,
}

async fn open_client(ep: &endpoint::Endpoint, k: usize, p: &ClientP, seed: u64) -> Result<(Client, Option<u16>), String> {
    let addr = format!("203.0.113.{}:41000", 60 + k).parse().unwrap();
    let (stream, peer) = world::client_conn(addr, 1 << 20, 1 << 20, EpFaults::default());
    let core = ep.core.clone();
    let h2 = p.h2;
    let session = tokio::spawn(async move {
        core.verif_serve_session(h2, stream, "vpn.example".into(), None).await;
    });
    let rx = Arc::new(Mutex::new((Vec::new(), false)));
    if p.h2 {
        let c = h2_connect(peer.clone(), H2Params { initial_window: 1 << 20, conn_window: 8 << 20, ..Default::default() }, Rng::new(seed ^ k as u64)).await?;
        let mut send = c.send;
        let req = http::Request::builder()
            .method("CONNECT")
            .uri("_icmp")
            .header("proxy-authorization", basic_auth("u0", "p0-secret-password"))
            .header("user-agent", "sim _icmp")
            .body(())
            .unwrap();
        let _ = std::future::poll_fn(|cx| send.poll_ready(cx)).await;
        let (resp, stx) = send.send_request(req, false).map_err(|e| e.to_string())?;
        let resp = resp.await.map_err(|e| format!("_icmp response: {}", e))?;
        let status = resp.status().as_u16();
        let mut body = resp.into_body();
        let r2 = rx.clone();
        let reader = tokio::spawn(async move {
            loop {
                match body.data().await {
                    Some(Ok(d)) => {
                        let _ = body.flow_control().release_capacity(d.len());
                        r2.lock().unwrap().0.extend_from_slice(&d);
                    }
                    _ => {
                        r2.lock().unwrap().1 = true;
                        break;
                    }
                }
            }
        });
        Ok((Client { tx: ClientTx::H2(stx), rx, parsed: 0, _keep: Some((send, c.driver)), _session: session, _reader: reader }, Some(status)))
    } else {
        let head = format!("CONNECT _icmp HTTP/1.1\r\nHost: _icmp\r\nProxy-Authorization: {}\r\n\r\n", basic_auth("u0", "p0-secret-password"));
        let _ = peer.write_all(head.as_bytes()).await;
        let status = match h1_read_head(&peer).await {
            H1ReadHead::Head(h, rest) => {
                rx.lock().unwrap().0 = rest;
                h.status
            }
            _ => return Err("no response to CONNECT _icmp".into()),
        };
        let r2 = rx.clone();
        let p2 = peer.clone();
        let reader = tokio::spawn(async move {
            loop {
                match p2.read(64 * 1024).await {
                    PeerRead::Data(d) => r2.lock().unwrap().0.extend_from_slice(&d),
                    _ => {
                        r2.lock().unwrap().1 = true;
                        break;
                    }
                }
            }
        });
        Ok((Client { tx: ClientTx::H1(peer), rx, parsed: 0, _keep: None, _session: session, _reader: reader }, Some(status)))
    }
}

fn enc_ip(ip: IpAddr) -> [u8; 16] {
    let mut b = [0u8; 16];
    match ip {
        IpAddr::V4(a) => b[12..].copy_from_slice(&a.octets()),
        IpAddr::V6(a) => b = a.octets(),
    }
    b
}

fn dec_ip(b: &[u8]) -> IpAddr {
    if b[..12].iter().all(|x| *x == 0) {
        IpAddr::V4(Ipv4Addr::new(b[12], b[13], b[14], b[15]))
    } else {
        let mut a = [0u8; 16];
        a.copy_from_slice(b);
        IpAddr::V6(Ipv6Addr::from(a))
    }
}

pub fn request_record(id: u16, dst: IpAddr, seq: u16, ttl: u8, size: u16) -> Vec<u8> {
    let mut v = Vec::with_capacity(23);
    v.extend_from_slice(&id.to_be_bytes());
    v.extend_from_slice(&enc_ip(dst));
    v.extend_from_slice(&seq.to_be_bytes());
    v.push(ttl);
    v.extend_from_slice(&size.to_be_bytes());
    v
}

fn ipv4_header(ihl: u8, proto: u8, src: Ipv4Addr, dst: Ipv4Addr, payload_len: usize) -> Vec<u8> {
    let ihl = ihl.clamp(5, 15) as usize;
    let mut h = vec![0u8; ihl * 4];
    h[0] = 0x40 | ihl as u8;
    let total = (ihl * 4 + payload_len).min(65_535) as u16;
    h[2..4].copy_from_slice(&total.to_be_bytes());
    h[8] = 57;
    h[9] = proto;
    h[12..16].copy_from_slice(&src.octets());
    h[16..20].copy_from_slice(&dst.octets());
    for (i, b) in h.iter_mut().enumerate().skip(20) {
        *b = if i % 4 == 3 { 0 } else { 1 }; // NOP options
    }
    h
}

fn ipv6_header(next: u8, src: Ipv6Addr, dst: Ipv6Addr, payload_len: usize) -> Vec<u8> {
    let mut h = vec![0u8; 40];
    h[0] = 0x60;
    h[4..6].copy_from_slice(&(payload_len.min(65_535) as u16).to_be_bytes());
    h[6] = next;
    h[7] = 61;
    h[8..24].copy_from_slice(&src.octets());
    h[24..40].copy_from_slice(&dst.octets());
    h
}

fn with_checksum(mut icmp: Vec<u8>) -> Vec<u8> {
    let mut sum = 0u32;
    for c in icmp.chunks(2) {
        sum += u16::from_be_bytes([c[0], if c.len() > 1 { c[1] } else { 0 }]) as u32;
    }
    while sum >> 16 != 0 {
        sum = (sum & 0xffff) + (sum >> 16);
    }
    let cs = !(sum as u16);
    icmp[2..4].copy_from_slice(&cs.to_be_bytes());
    icmp
}

const EP_V4: Ipv4Addr = Ipv4Addr::new(198, 51, 100, 1);
const EP_V6: Ipv6Addr = Ipv6Addr::new(0x2001, 0xdb8, 0x100, 0, 0, 0, 0, 1);

/// The packet the network hands to the raw socket for this reply (IPv4: with IP header)
fn build_reply(kind: &RKind, sent: &[u8], dst: IpAddr, from: IpAddr, outer_ihl: u8) -> Vec<u8> {
    // `sent` is the echo request as it left: type, code, checksum, id, seq, data
    let v4 = dst.is_ipv4();
    let id = [sent[4], sent[5]];
    let seq = [sent[6], sent[7]];
    let data = &sent[8..];
    let icmp: Vec<u8> = match kind {
        RKind::EchoReply { .. } | RKind::WrongId | RKind::WrongSeq => {
            let mut m = vec![if v4 { 0 } else { 129 }, 0, 0, 0];
            let (mut i, mut s) = (id, seq);
            if *kind == RKind::WrongId {
                i[1] ^= 0x40;
            }
            if *kind == RKind::WrongSeq {
                s[0] ^= 0x01;
            }
            m.extend_from_slice(&i);
            m.extend_from_slice(&s);
            match kind {
                RKind::EchoReply { data: 1 } => m.extend_from_slice(&data[..data.len() / 2]),
                RKind::EchoReply { data: 2 } => {
                    m.extend_from_slice(data);
                    if m.len() > 8 {
                        m[8] ^= 0xa5;
                    }
                }
                RKind::EchoReply { data: 3 } => {
                    m.extend_from_slice(data);
                    m.extend_from_slice(&[1, 2, 3, 4]);
                }
                _ => m.extend_from_slice(data),
            }
            with_checksum(m)
        }
        RKind::Error { ty, code, extra, ihl } => {
            let (t, c) = error_type_code(v4, *ty, *code);
            let mut m = vec![t, c, 0, 0, 0, 0, 0, 0];
            let quoted_echo = &sent[..(8 + extra).min(sent.len())];
            match dst {
                IpAddr::V4(d) => m.extend(ipv4_header(*ihl, 1, EP_V4, d, sent.len())),
                IpAddr::V6(d) => m.extend(ipv6_header(58, EP_V6, d, sent.len())),
            }
            m.extend_from_slice(quoted_echo);
            with_checksum(m)
        }
        RKind::ErrorOtherProto => {
            let mut m = vec![if v4 { 3 } else { 1 }, if v4 { 3 } else { 4 }, 0, 0, 0, 0, 0, 0];
            match dst {
                IpAddr::V4(d) => m.extend(ipv4_header(5, 17, EP_V4, d, 16)),
                IpAddr::V6(d) => m.extend(ipv6_header(17, EP_V6, d, 16)),
            }
            // a UDP header whose bytes look like the echo's id and seq
            m.extend_from_slice(&[8, 0, 0, 0]);
            m.extend_from_slice(&id);
            m.extend_from_slice(&seq);
            with_checksum(m)
        }
    };
    match from {
        IpAddr::V4(f) if v4 => {
            let mut p = ipv4_header(outer_ihl, 1, f, EP_V4, icmp.len());
            p.extend(icmp);
            p
        }
        _ => icmp,
    }
}

/// Error types and codes by index: (type, code) as they go on the wire
fn error_type_code(v4: bool, ty: u8, code: u8) -> (u8, u8) {
    if v4 {
        match ty {
            0 | 1 => (3, code % 16),
            2 => (11, code % 2),
            3 => (12, code % 3),
            _ => (4, 0),
        }
    } else {
        match ty {
            0 | 1 => (1, code % 7),
            2 => (3, code % 2),
            3 => (4, code % 3),
            _ => (2, 0),
        }
    }
}

fn garbage(v4: bool, shape: u8, len: usize, rng: &mut Rng) -> Vec<u8> {
    let junk = rng.bytes(len);
    if v4 {
        let hdr = |proto: u8, n: usize| ipv4_header(5, proto, Ipv4Addr::new(192, 0, 2, 77), EP_V4, n);
        match shape {
            0 => junk,
            1 => hdr(1, 8)[..len.min(19)].to_vec(),
            2 => [hdr(17, len), junk].concat(),
            3 => [hdr(1, 8 + len), with_checksum([vec![8, 0, 0, 0, 0, 1, 0, 1], junk].concat())].concat(),
            4 => {
                let n = *rng.pick(&[0usize, 4, 15, 16, 17]);
                let t = *rng.pick(&[13u8, 14, 15, 16, 17, 18, 9, 10, 42]);
                [hdr(1, 20), with_checksum([vec![t, 0, 0, 0], rng.bytes(n)].concat())].concat()
            }
            5 => [hdr(1, 8 + len), vec![*rng.pick(&[3u8, 4, 5, 11, 12]), 0, 0, 0, 0, 0, 0, 0], junk[..len.min(27)].to_vec()].concat(),
            6 => [hdr(1, 4), vec![0, 0, 0, 0][..len.min(4)].to_vec()].concat(),
            7 => {
                let mut h = hdr(1, 8);
                h[0] = 0x40 | (len as u8 & 0x0f);
                [h, vec![0, 0, 0, 0, 0, 1, 0, 1]].concat()
            }
            8 => {
                // error whose quoted header claims more options than there are bytes
                let mut inner = ipv4_header(5, 1, EP_V4, Ipv4Addr::new(8, 8, 4, 4), 8);
                inner[0] = 0x4f;
                [hdr(1, 36), vec![3, 1, 0, 0, 0, 0, 0, 0], inner, vec![8, 0, 0, 0, 0, 1, 0, 1]].concat()
            }
            9 => [hdr(1, 1), vec![*rng.pick(&[0u8, 3, 5, 8, 11, 12, 13])]].concat(),
            10 => hdr(1, 0),
            _ => [hdr(1, 8 + len), vec![5, 1, 0, 0], junk].concat(),
        }
    } else {
        match shape {
            0 => junk,
            1 => vec![*rng.pick(&[1u8, 2, 3, 4, 128, 129, 133, 135])],
            2 => [vec![128, 0, 0, 0, 0, 1, 0, 1], junk].concat(),
            3 => [vec![*rng.pick(&[1u8, 2, 3, 4]), 0, 0, 0, 0, 0, 0, 0], junk[..len.min(39)].to_vec()].concat(),
            4 | 5 | 6 => {
                // an error quoting a packet with an extension header chain that is cut short,
                // or whose length octet points beyond the packet
                let next = *rng.pick(&[0u8, 43, 60, 44]);
                let mut q = ipv6_header(next, EP_V6, "2001:db8:7::1".parse().unwrap(), 16);
                q.push(*rng.pick(&[58u8, 0, 60, 44]));
                q.push(*rng.pick(&[0u8, 1, 7, 200, 255]));
                q.extend_from_slice(&junk[..len.min(junk.len())]);
                [vec![*rng.pick(&[1u8, 2, 3, 4]), 0, 0, 0, 0, 0, 0, 0], q].concat()
            }
            7 => vec![129, 0, 0, 0, 0, 1][..len.min(6)].to_vec(),
            8 => {
                let mut q = ipv6_header(44, EP_V6, "2001:db8:7::1".parse().unwrap(), 16);
                q.extend_from_slice(&[58, 0, 0, 0][..len.min(4)]);
                [vec![3, 0, 0, 0, 0, 0, 0, 0], q].concat()
            }
            _ => [vec![*rng.pick(&[130u8, 133, 134, 135, 136, 137, 0, 255]), 0, 0, 0], junk].concat(),
        }
    }
}

async fn run(plan: IPlan) -> Obs {
    let mut obs = Obs::default();
    let t_us = plan.timeout_ms * 1000 + FRACTION_US;
    let cfg = EpConfig {
        listen: LISTEN.parse().unwrap(),
        ipv6: plan.ipv6,
        icmp: Some((t_us, plan.queue_cap)),
        ..EpConfig::default()
    };
    let ep = match endpoint::build(&cfg, endpoint::registry(&cfg)) {
        Ok(e) => e,
        Err(e) => {
            obs.setup_error = Some(e);
            return obs;
        }
    };
    world::with(|w| w.random_bias_carry = plan.bias_carry);
    let listening = crate::patht::start(&ep, cfg.listen).await;
    for _ in 0..10 {
        tokio::task::yield_now().await;
    }
    let mut clients = Vec::new();
    for (k, p) in plan.clients.iter().enumerate() {
        match open_client(&ep, k, p, plan.seed).await {
            Ok((c, st)) => {
                obs.statuses.push(st);
                clients.push(c);
            }
            Err(e) => {
                obs.setup_error = Some(format!("client {}: {}", k, e));
                return obs;
            }
        }
    }
    if obs.statuses.iter().any(|s| *s != Some(200)) {
        return obs;
    }
    let mut grng = Rng::new(plan.seed ^ 0x6a);
    let mut req_ops: Vec<usize> = Vec::new(); // request ordinal -> index into obs.sent

    let collect = |clients: &mut Vec<Client>, obs: &mut Obs, op: usize| {
        for (k, c) in clients.iter_mut().enumerate() {
            let g = c.rx.lock().unwrap();
            while g.0.len() >= c.parsed + 22 {
                let r = &g.0[c.parsed..c.parsed + 22];
                obs.reports.push(Report {
                    client: k,
                    op,
                    at: world::now_us(),
                    id: u16::from_be_bytes([r[0], r[1]]),
                    src: dec_ip(&r[2..18]),
                    ty: r[18],
                    code: r[19],
                    seq: u16::from_be_bytes([r[20], r[21]]),
                });
                c.parsed += 22;
            }
        }
    };

    let n_ops = plan.ops.len();
    for k in 0..=n_ops {
        // after the planned history: one fresh request and its reply must still go through
        let probe = k == n_ops;
        let op = if probe {
            IOp::Request { client: 0, id: 0x7e57, dst: 0, seq: 0x7e57, ttl: 64, size: 8 }
        } else {
            plan.ops[k].clone()
        };
        match op {
            IOp::Request { client, id, dst, seq, ttl, size } => {
                let dst_ip: IpAddr = plan.dst(dst);
                let rec = request_record(id, dst_ip, seq, ttl, size);
                let before = world::with(|w| w.icmp_sent.len());
                let c = &mut clients[client];
                let piece = plan.clients[client].piece;
                let at = world::now_us();
                if piece == 0 {
                    let _ = c.tx.send(&rec).await;
                } else {
                    for ch in rec.chunks(piece) {
                        let _ = c.tx.send(ch).await;
                        sleep_us(150).await;
                    }
                }
                let _ = tokio::time::timeout(Duration::from_millis(50), world::icmp_sent_after(before)).await;
                sleep_us(300).await;
                let (wire, extra) = world::with(|w| (w.icmp_sent.get(before).cloned(), w.icmp_sent.len().saturating_sub(before + 1)));
                req_ops.push(obs.sent.len());
                obs.sent.push(SentEcho { op: k, client, want: (id, dst, seq, ttl, size), at: wire.as_ref().map(|w| w.t_us).unwrap_or(at), wire, extra_packets: extra });
                if probe {
                    let s = obs.sent.last().unwrap().clone();
                    if let Some(w) = &s.wire {
                        let pkt = build_reply(&RKind::EchoReply { data: 0 }, &w.packet, dst_ip, dst_ip, 5);
                        world::icmp_deliver(dst_ip.is_ipv4(), dst_ip, &pkt);
                        sleep_us(2_000).await;
                        let n0 = obs.reports.len();
                        collect(&mut clients, &mut obs, k);
                        obs.probe_ok = Some(obs.reports[n0..].iter().any(|r| r.client == 0 && r.id == 0x7e57 && r.seq == 0x7e57));
                        obs.reports.truncate(n0);
                    } else {
                        obs.probe_ok = Some(false);
                    }
                }
            }
            IOp::Burst { client, reqs, cuts } => {
                let mut stream = Vec::new();
                for (id, dst, seq, ttl, size) in &reqs {
                    stream.extend(request_record(*id, plan.dst(*dst), *seq, *ttl, *size));
                }
                let before = world::with(|w| w.icmp_sent.len());
                let at = world::now_us();
                let mut cuts = cuts.clone();
                cuts.sort();
                cuts.dedup();
                let mut from = 0;
                for c in cuts.iter().chain(std::iter::once(&stream.len())) {
                    if *c > from && *c <= stream.len() {
                        let _ = clients[client].tx.send(&stream[from..*c]).await;
                        sleep_us(150).await;
                        from = *c;
                    }
                }
                // requests to an address family without a socket are dropped, the others leave in order
                let expected: usize = reqs.iter().filter(|r| plan.ipv6 || plan.dst(r.1).is_ipv4()).count();
                for _ in 0..expected {
                    let have = world::with(|w| w.icmp_sent.len());
                    if have >= before + expected {
                        break;
                    }
                    let _ = tokio::time::timeout(Duration::from_millis(50), world::icmp_sent_after(have)).await;
                }
                sleep_us(300).await;
                let got: Vec<world::IcmpSent> = world::with(|w| w.icmp_sent[before.min(w.icmp_sent.len())..].to_vec());
                let mut next = 0usize;
                for (n, r) in reqs.iter().enumerate() {
                    let sendable = plan.ipv6 || plan.dst(r.1).is_ipv4();
                    let wire = if sendable {
                        let w = got.get(next).cloned();
                        next += 1;
                        w
                    } else {
                        None
                    };
                    let extra = if n + 1 == reqs.len() { got.len().saturating_sub(next.max(expected)) } else { 0 };
                    req_ops.push(obs.sent.len());
                    obs.sent.push(SentEcho { op: k, client, want: *r, at: wire.as_ref().map(|w| w.t_us).unwrap_or(at), wire, extra_packets: extra });
                }
            }
            IOp::Reply { req, kind, from_router, outer_ihl } => {
                let Some(&si) = req_ops.get(req) else { continue };
                let s = obs.sent[si].clone();
                let Some(w) = &s.wire else { continue };
                if w.packet.len() < 8 {
                    continue;
                }
                let is_err = matches!(kind, RKind::Error { .. } | RKind::ErrorOtherProto);
                let from: IpAddr = if from_router || is_err {
                    ROUTERS[if w.dst.is_ipv4() { 0 } else { 1 }].parse().unwrap()
                } else {
                    w.dst
                };
                let pkt = build_reply(&kind, &w.packet, w.dst, from, outer_ihl);
                let ok = world::icmp_deliver(w.dst.is_ipv4(), from, &pkt);
                obs.delivered.push(Delivered { op: k, at: world::now_us(), v4: w.dst.is_ipv4(), from, accepted_by_socket: ok });
                sleep_us(2_000).await;
            }
            IOp::Garbage { v4, shape, len } => {
                let pkt = garbage(v4, shape, len, &mut grng);
                let from: IpAddr = if v4 { "192.0.2.77".parse().unwrap() } else { "2001:db8:bad::1".parse().unwrap() };
                let ok = world::icmp_deliver(v4, from, &pkt);
                obs.delivered.push(Delivered { op: k, at: world::now_us(), v4, from, accepted_by_socket: ok });
                sleep_us(2_000).await;
            }
            IOp::Wait { pct } => sleep_us(t_us * pct / 100).await,
            IOp::Leave { client } => {
                if let Some(c) = clients.get_mut(client) {
                    match &mut c.tx {
                        ClientTx::H2(tx) => tx.send_reset(h2::Reason::CANCEL),
                        ClientTx::H1(p) => p.reset(),
                    }
                }
                sleep_us(3_000).await;
            }
        }
        collect(&mut clients, &mut obs, k);
    }
    sleep_us(5_000).await;
    collect(&mut clients, &mut obs, usize::MAX);
    for c in &clients {
        let g = c.rx.lock().unwrap();
        obs.rx_leftover.push(g.0.len() - c.parsed);
        obs.streams_ended.push(g.1);
    }
    obs.listen_ended = listening.task.is_finished();
    listening.task.abort();
    obs
}

fn judge(plan: &IPlan, o: &Obs, out: &mut Outcome) {
    if let Some(e) = &o.setup_error {
        out.violate("HARNESS", "icmp-setup", e.clone());
        return;
    }
    if o.statuses.iter().any(|s| *s != Some(200)) {
        out.violate("C11", "icmp:stream-refused", format!("CONNECT _icmp answered {:?}", o.statuses));
        return;
    }
    let t_us = plan.timeout_ms * 1000 + FRACTION_US;
    let eps = 3_000u64;
    out.nontrivial = !o.sent.is_empty();
    if o.listen_ended {
        out.violate("C09", "icmp:listen-returned", "Core::listen() returned during the history".to_string());
        return;
    }

    // ---- every request leaves as one faithful echo -------------------------------------
    for s in &o.sent {
        let (id, dst, seq, ttl, size) = s.want;
        let dst_ip: IpAddr = plan.dst(dst);
        let v4 = dst_ip.is_ipv4();
        let fam = if v4 { "v4" } else { "v6" };
        if !v4 && !plan.ipv6 {
            // no IPv6 socket: the request cannot be sent; it must not be sent elsewhere
            if s.wire.is_some() {
                out.violate("C11", "icmp:v6-request-sent-without-ipv6", format!("request to {} left although ipv6_available is false", dst_ip));
            }
            out.cell("icmp:request:v6-unavailable");
            continue;
        }
        out.cell(format!("icmp:request:{}:size{}", fam, match size { 0 => "0", 1..=1500 => "small", _ => "large" }));
        let Some(w) = &s.wire else {
            out.violate("C11", format!("icmp:{}:request-not-sent", fam), format!("request op {} (id {} seq {} to {} size {}) produced no echo", s.op, id, seq, dst_ip, size));
            continue;
        };
        if s.extra_packets > 0 {
            out.violate("C11", format!("icmp:{}:request-sent-more-than-once", fam), format!("request op {} produced {} packets", s.op, 1 + s.extra_packets));
        }
        let p = &w.packet;
        let mut wrong = Vec::new();
        if w.dst != dst_ip {
            wrong.push(format!("destination {} instead of {}", w.dst, dst_ip));
        }
        if w.v4 != v4 {
            wrong.push("wrong address family socket".to_string());
        }
        if w.ttl != ttl {
            wrong.push(format!("ttl {} instead of {}", w.ttl, ttl));
        }
        if p.len() != 8 + size as usize {
            wrong.push(format!("length {} instead of {}", p.len(), 8 + size as usize));
        }
        if p.len() >= 8 {
            if p[0] != if v4 { 8 } else { 128 } || p[1] != 0 {
                wrong.push(format!("type/code {}/{}", p[0], p[1]));
            }
            if u16::from_be_bytes([p[4], p[5]]) != id {
                wrong.push(format!("identifier {} instead of {}", u16::from_be_bytes([p[4], p[5]]), id));
            }
            if u16::from_be_bytes([p[6], p[7]]) != seq {
                wrong.push(format!("sequence {} instead of {}", u16::from_be_bytes([p[6], p[7]]), seq));
            }
        }
        if !wrong.is_empty() {
            out.violate("C11", format!("icmp:{}:echo-not-faithful", fam), format!("request op {}: {}", s.op, wrong.join(", ")));
        }
        // ICMPv6: the kernel computes the checksum over the pseudo-header; ICMPv4: the sender does
        if v4 && p.len() >= 8 && rfc1071_verify(p) != 0 {
            out.violate(
                "C11",
                "icmp:v4:bad-checksum",
                format!("echo of {} bytes (id {} seq {}) carries checksum {:02x}{:02x}, which does not verify", p.len(), id, seq, p[2], p[3]),
            );
        }
    }

    // ---- reports ----------------------------------------------------------------------
    // which request ordinal is which `sent` entry
    let req_sent: Vec<&SentEcho> = o.sent.iter().filter(|s| s.op < plan.ops.len()).collect();
    let mut used = vec![false; o.reports.len()];
    let mut answered: Vec<bool> = vec![false; req_sent.len()];
    for d in &o.delivered {
        let op = &plan.ops[d.op];
        // reports that appeared in the window of this delivery
        let window: Vec<usize> = o.reports.iter().enumerate().filter(|(_, r)| r.op == d.op).map(|(i, _)| i).collect();
        match op {
            IOp::Garbage { v4, shape, .. } => {
                out.cell(format!("icmp:garbage:{}:{}", if *v4 { "v4" } else { "v6" }, shape));
                if let Some(&i) = window.first() {
                    used[i] = true;
                    out.violate(
                        "C11",
                        format!("icmp:unrelated-packet-reported:{}:{}", if *v4 { "v4" } else { "v6" }, shape),
                        format!("garbage op {} caused report {:?}", d.op, o.reports[i]),
                    );
                }
            }
            IOp::Reply { req, kind, .. } => {
                let Some(q) = req_sent.get(*req) else { continue };
                let Some(w) = &q.wire else { continue };
                let (qid, qseq) = (u16::from_be_bytes([w.packet[4], w.packet[5]]), u16::from_be_bytes([w.packet[6], w.packet[7]]));
                let v4 = w.dst.is_ipv4();
                // what the packet claims to answer
                let (pid, pseq, pdata): (u16, u16, Option<Vec<u8>>) = match kind {
                    RKind::EchoReply { data: 0 } => (qid, qseq, Some(w.packet[8..].to_vec())),
                    RKind::EchoReply { data: 1 } => (qid, qseq, Some(w.packet[8..8 + (w.packet.len() - 8) / 2].to_vec())),
                    RKind::EchoReply { .. } => (qid, qseq, None),
                    RKind::WrongId => (qid ^ 0x40, qseq, Some(w.packet[8..].to_vec())),
                    RKind::WrongSeq => (qid, qseq ^ 0x100, Some(w.packet[8..].to_vec())),
                    RKind::Error { extra, .. } => (qid, qseq, Some(w.packet[8..(8 + extra).min(w.packet.len())].to_vec())),
                    RKind::ErrorOtherProto => (qid, qseq, None),
                };
                let (ety, ecode, reportable): (u8, u8, Option<bool>) = match kind {
                    RKind::EchoReply { data: 0 } | RKind::WrongId | RKind::WrongSeq => (if v4 { 0 } else { 129 }, 0, Some(true)),
                    // a reply whose data is a proper prefix of what was sent, altered or longer:
                    // the statement does not say; matching on identifier and sequence is enough
                    RKind::EchoReply { .. } => (if v4 { 0 } else { 129 }, 0, None),
                    RKind::Error { ty, code, .. } => {
                        let (t, c) = error_type_code(v4, *ty, *code);
                        // source quench / packet-too-big: advisory, either
                        (t, c, if (v4 && t == 4) || (!v4 && t == 2) { None } else { Some(true) })
                    }
                    RKind::ErrorOtherProto => (0, 0, Some(false)),
                };
                // candidates: requests still pending with that id and seq and compatible data
                let mut must: Vec<usize> = Vec::new();
                let mut may: Vec<usize> = Vec::new();
                for (n, s) in req_sent.iter().enumerate() {
                    let Some(sw) = &s.wire else { continue };
                    if sw.packet.len() < 8 || sw.t_us > d.at {
                        continue;
                    }
                    // a client that has left is told nothing any more
                    if plan.ops.iter().take(d.op).any(|op| matches!(op, IOp::Leave { client } if *client == s.client)) {
                        continue;
                    }
                    let sid = u16::from_be_bytes([sw.packet[4], sw.packet[5]]);
                    let sseq = u16::from_be_bytes([sw.packet[6], sw.packet[7]]);
                    if sid != pid || sseq != pseq || sw.dst.is_ipv4() != v4 {
                        continue;
                    }
                    let compatible = match &pdata {
                        Some(pd) => {
                            let sd = &sw.packet[8..];
                            if pd.len() <= sd.len() { sd.starts_with(pd) } else { pd.starts_with(sd) }
                        }
                        None => true,
                    };
                    if !compatible {
                        continue;
                    }
                    // an identical (id, seq) sent again by anybody makes the waiter's lifetime unclear
                    let age = d.at - sw.t_us;
                    if age + eps < t_us {
                        must.push(n);
                    } else if age <= t_us + eps {
                        may.push(n);
                    }
                }
                let same_key_resent = req_sent.iter().filter(|s| s.wire.as_ref().map(|x| x.packet.len() >= 8 && x.packet[4..8] == w.packet[4..8] && x.dst.is_ipv4() == v4).unwrap_or(false)).count() > 1;
                let kind_name = match kind {
                    RKind::EchoReply { data: 0 } => "reply".to_string(),
                    RKind::EchoReply { data } => format!("reply-data{}", data),
                    RKind::WrongId => "wrong-id".into(),
                    RKind::WrongSeq => "wrong-seq".into(),
                    RKind::Error { .. } => format!("error-{}-{}", ety, ecode),
                    RKind::ErrorOtherProto => "error-other-proto".into(),
                };
                let fam = if v4 { "v4" } else { "v6" };
                out.cell(format!("icmp:{}:{}", fam, kind_name));
                // violation keys are coarser than cells: one per kind of packet
                let kind_name = if matches!(kind, RKind::Error { .. }) { "error".to_string() } else { kind_name };
                let state = if !must.is_empty() { "pending" } else if !may.is_empty() { "at-deadline" } else { "none-pending" };
                out.cell(format!("icmp:{}:{}:{}", fam, kind_name, state));
                let already = must.iter().chain(&may).all(|n| answered[*n]) && (!must.is_empty() || !may.is_empty());
                let expect: Option<bool> = if reportable == Some(false) || (must.is_empty() && may.is_empty()) {
                    Some(false)
                } else if reportable.is_none() || must.is_empty() || already || same_key_resent {
                    None
                } else {
                    Some(true)
                };
                let cands: Vec<usize> = must.iter().chain(&may).cloned().collect();
                if window.len() > 1 {
                    out.violate("C11", format!("icmp:{}:{}:reported-more-than-once", fam, kind_name), format!("op {} produced {} reports", d.op, window.len()));
                }
                for &i in &window {
                    used[i] = true;
                }
                let same_key = |n: usize| -> Option<&[u8]> {
                    let sw = req_sent[n].wire.as_ref()?;
                    if sw.packet.len() < 8 || sw.t_us > d.at || d.at - sw.t_us > t_us + eps || sw.dst.is_ipv4() != v4 {
                        return None;
                    }
                    let sid = u16::from_be_bytes([sw.packet[4], sw.packet[5]]);
                    let sseq = u16::from_be_bytes([sw.packet[6], sw.packet[7]]);
                    (sid == pid && sseq == pseq).then(|| &sw.packet[8..])
                };
                let prefix_related = |a: &[u8], b: &[u8]| if a.len() <= b.len() { b.starts_with(a) } else { a.starts_with(b) };
                let merged_for = |told: usize| -> bool { (0..req_sent.len()).any(|n| {
                    req_sent[n].client == told
                        && !cands.contains(&n)
                        && same_key(n).map_or(false, |rival| {
                            (0..req_sent.len()).any(|x| {
                                x != n
                                    && same_key(x).map_or(false, |bridge| {
                                        bridge.len() < rival.len()
                                && rival.starts_with(bridge)
                                && pdata.as_ref().map_or(true, |pd| prefix_related(pd, bridge))
                                    })
                            })
                        })
                }) };
                match (expect, window.first()) {
                    // (the known finding also shows when nobody is a candidate any more: the
                    // requests that the packet answers have expired or their clients have left,
                    // yet their waiter lives on, merged with the told client's own)
                    (Some(false), Some(&i)) if merged_for(o.reports[i].client) => out.violate(
                        "C11",
                        "icmp:waiters-merged-by-shorter-data:reported-to-wrong-client",
                        format!(
                            "op {} answers no pending request, client {} was told (its own pending request has the same identifier and sequence number but other data; a third request with shorter data, still in the table, is a prefix of both)",
                            d.op, o.reports[i].client
                        ),
                    ),
                    (Some(false), Some(&i)) => out.violate(
                        "C11",
                        format!("icmp:{}:{}:{}:reported", fam, kind_name, state),
                        format!("op {} ({:?} for request {} sent {} us earlier, time-out {} us) was reported: {:?}", d.op, kind, req, d.at - w.t_us, t_us, o.reports[i]),
                    ),
                    (Some(true), None) => out.violate(
                        "C11",
                        format!("icmp:{}:{}:not-reported", fam, kind_name),
                        format!("op {} ({:?} answering request {} of client {}, sent {} us earlier, time-out {} us, accepted by socket {}) was not reported to anybody", d.op, kind, req, q.client, d.at - w.t_us, t_us, d.accepted_by_socket),
                    ),
                    (_, Some(&i)) => {
                        let r = &o.reports[i];
                        for n in &cands {
                            answered[*n] = true;
                        }
                        let clients_ok: Vec<usize> = cands.iter().map(|n| req_sent[*n].client).collect();
                        if !clients_ok.contains(&r.client) {
                            // the narrow circumstance of the known finding: the client told has a
                            // pending request with the same identifier and sequence number (same
                            // family) but other data, and a third pending request carries data
                            // that is a prefix of both (the table keeps all three under one entry)
                            let merged = merged_for(r.client);
                            if merged {
                                out.violate(
                                    "C11",
                                    "icmp:waiters-merged-by-shorter-data:reported-to-wrong-client",
                                    format!(
                                        "op {} answers a request of client(s) {:?}, client {} was told (its own pending request has the same identifier and sequence number but other data; a third pending request with shorter data is a prefix of both)",
                                        d.op, clients_ok, r.client
                                    ),
                                );
                            } else {
                                out.violate(
                                    "C11",
                                    format!("icmp:{}:{}:reported-to-wrong-client", fam, kind_name),
                                    format!("op {} answers a request of client(s) {:?}, client {} was told", d.op, clients_ok, r.client),
                                );
                            }
                        }
                        let mut wrong = Vec::new();
                        if r.id != pid {
                            wrong.push(format!("id {} instead of {}", r.id, pid));
                        }
                        if r.seq != pseq {
                            wrong.push(format!("seq {} instead of {}", r.seq, pseq));
                        }
                        if r.src != d.from {
                            wrong.push(format!("source {} instead of {}", r.src, d.from));
                        }
                        if r.ty != ety || r.code != ecode {
                            wrong.push(format!("type/code {}/{} instead of {}/{}", r.ty, r.code, ety, ecode));
                        }
                        if !wrong.is_empty() {
                            out.violate("C11", format!("icmp:{}:{}:report-wrong", fam, kind_name), format!("op {}: {}", d.op, wrong.join(", ")));
                        }
                    }
                    _ => {}
                }
            }
            _ => {}
        }
    }
    for (i, r) in o.reports.iter().enumerate() {
        if !used[i] {
            out.violate("C11", "icmp:spontaneous-report", format!("a report nothing explains: {:?}", r));
        }
    }
    for (k, n) in o.rx_leftover.iter().enumerate() {
        if *n != 0 {
            out.violate("C11", "icmp:partial-report-record", format!("client {} holds {} bytes that are not a 22-byte record", k, n));
        }
    }
    // ---- the service survives the history ------------------------------------------------
    let left: Vec<usize> = plan.ops.iter().filter_map(|op| if let IOp::Leave { client } = op { Some(*client) } else { None }).collect();
    if o.streams_ended.iter().enumerate().any(|(k, e)| *e && !left.contains(&k)) {
        out.violate("C11", "icmp:stream-ended", format!("an _icmp stream ended during the history: {:?}", o.streams_ended));
    } else if o.probe_ok == Some(false) {
        out.violate("C11", "icmp:service-dead-after-history", "a fresh request and its reply at the end of the history were not served".to_string());
    }
}
