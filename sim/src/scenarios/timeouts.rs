//! C14: idle and establishment time-outs on the virtual clock.
//!
//! Idle: an established tunnel sees a planned activity pattern (transfers at planned
//! offsets in either direction, optionally one direction ending early); the oracle knows
//! the time of the last transfer `a` and the longest silence, and checks that the tunnel is
//! never closed while the silence stays below T and is closed within [a+T, a+2T] after.
//! Establishment: connect / resolver completing at chosen fractions of the limit, or never.

use crate::actors::*;
use crate::endpoint::{self, EpConfig, FRACTION_US};
use crate::prng::Rng;
use crate::scenario::*;
use crate::sim::{self, Outcome};
use crate::world::{self, ConnectOutcome, DnsOutcome, DnsPlan, EpFaults, HostPlan, PeerConn, PeerRead};
use bytes::Bytes;
use serde::{Deserialize, Serialize};
use serde_json::Value;
use std::net::SocketAddr;
use std::sync::{Arc, Mutex};
use std::time::Duration;

pub struct Timeouts;

#[derive(Clone, Debug, Serialize, Deserialize)]
pub struct Xfer {
    /// microseconds after the previous transfer (or after tunnel establishment)
    pub after_us: u64,
    /// true: client -> destination
    pub up: bool,
    pub len: usize,
}

#[derive(Clone, Debug, Serialize, Deserialize, PartialEq)]
pub enum Mode {
    /// transfers, then silence: when is the tunnel closed?
    Idle,
    /// connect completes after `1` µs with outcome ok (name resolution takes `0` µs first)
    Establish(u64, u64),
    /// connect never completes
    EstablishNever,
    /// the resolver never answers
    ResolveNever,
}

#[derive(Clone, Debug, Serialize, Deserialize)]
pub struct TPlan {
    pub seed: u64,
    pub h2: bool,
    pub mode: Mode,
    pub idle_timeout_us: u64,
    pub establish_timeout_us: u64,
    pub xfers: Vec<Xfer>,
    /// after transfer number `0` (index) this side ends its direction: true = client
    pub half_close: Option<(usize, bool)>,
    /// the destination stops reading after this many bytes (back-pressure stall)
    pub host_stops_reading_after: Option<u64>,
    /// the destination drains slowly: this many bytes per read, one read every `1` µs
    #[serde(default)]
    pub host_slow_drain: Option<(usize, u64)>,
    pub to_host_cap: usize,
}

fn dest() -> SocketAddr {
    "93.184.216.40:443".parse().unwrap()
}

impl Scenario for Timeouts {
    fn name(&self) -> &'static str {
        "timeouts"
    }

    fn budget(&self, tier: Tier) -> u64 {
        match tier {
            Tier::Quick => 100_000,
            Tier::Thorough => 8_000_000,
        }
    }

    fn generate(&self, seed: u64, index: u64, _tier: Tier) -> Value {
        let mut rng = Rng::new(seed).fork(&format!("timeouts{}", index));
        let t = rng.size(50_000, 5_000_000) + FRACTION_US;
        let limit = rng.size(50_000, 30_000_000) + FRACTION_US;
        let mode = match rng.below(10) {
            0 | 1 => {
                let f = *rng.pick(&[30u64, 50, 90, 98, 102, 110, 150]);
                let total = limit * f / 100;
                let dns = if rng.chance(1, 2) { 0 } else { rng.below(total.max(1)) };
                Mode::Establish(dns, total - dns)
            }
            2 => Mode::EstablishNever,
            3 => Mode::ResolveNever,
            _ => Mode::Idle,
        };
        let h2 = rng.chance(2, 3);
        let mut xfers = Vec::new();
        let mut half_close = None;
        let mut host_stops = None;
        let mut slow: Option<(usize, u64)> = None;
        if mode == Mode::Idle {
            let style = rng.below(6);
            let n = match style {
                0 => 0,
                1 => 1 + rng.usize_below(3),
                _ => 3 + rng.usize_below(22),
            };
            // gaps as percent of T: mostly below, sometimes right at, the deadline
            for i in 0..n {
                let pct = match style {
                    2 => rng.range(50, 99),
                    3 => *rng.pick(&[97u64, 99, 100, 101, 103]),
                    _ => rng.range(1, 99),
                };
                let mut after = t * pct / 100;
                if style == 3 && rng.chance(1, 2) {
                    after = match rng.below(3) {
                        0 => t - 1_000,
                        1 => t,
                        _ => t + 1_000,
                    };
                }
                let up = match style {
                    4 => true,
                    5 => false,
                    _ => rng.chance(1, 2),
                };
                xfers.push(Xfer {
                    after_us: after,
                    up,
                    len: 1 + rng.size(1, 8 * 1024) as usize,
                });
                let _ = i;
            }
            if h2 && n >= 3 && rng.chance(1, 3) {
                let k = rng.usize_below(n - 1);
                let client = rng.chance(1, 2);
                // the side that has ended its direction does not send any more
                for x in xfers.iter_mut().skip(k + 1) {
                    x.up = !client;
                }
                half_close = Some((k, client));
            }
            if half_close.is_none() && n >= 1 && rng.chance(1, 6) {
                host_stops = Some(rng.below(4096));
            }
            if half_close.is_none() && host_stops.is_none() && rng.chance(1, 5) {
                // one-sided: a long silence, then one big upload which a slow destination
                // drains in small steps, each well inside T, for longer than T in total
                xfers.clear();
                let first_pct = *rng.pick(&[20u64, 60, 99, 130, 180]);
                // 10-40 drain steps of `per` bytes each
                let per = 64 + rng.usize_below(512);
                let steps = 10 + rng.usize_below(30);
                xfers.push(Xfer { after_us: t * first_pct / 100, up: true, len: per * steps });
                slow = Some((per, t * rng.range(10, 45) / 100));
            }
        }
        let plan = TPlan {
            seed: rng.next_u64(),
            h2,
            mode,
            idle_timeout_us: t,
            establish_timeout_us: limit,
            xfers,
            half_close,
            host_stops_reading_after: host_stops,
            host_slow_drain: slow,
            to_host_cap: match (host_stops, slow) {
                // the socket buffer holds about one drain step: every step is a partial write
                (_, Some((per, _))) => per + rng.usize_below(per),
                (Some(_), None) => rng.size(16, 2048) as usize,
                _ => 64 * 1024,
            },
        };
        to_plan(&plan)
    }

    fn execute(&self, plan: &Value) -> Outcome {
        let plan: TPlan = match from_plan(plan) {
            Ok(p) => p,
            Err(e) => return harness_error(e),
        };
        let p2 = plan.clone();
        let (obs, rep) = sim::run(plan.seed, Duration::from_secs(3600 * 24 * 7), move || run(p2));
        let mut out = Outcome::default();
        match obs {
            Some(obs) => judge(&plan, &obs, &mut out),
            None => {
                if !rep.main_panicked {
                    out.inconclusive = true;
                }
            }
        }
        sim::finish(out, &rep)
    }
}

#[derive(Debug, Default, Clone)]
pub struct Obs {
    pub setup_error: Option<String>,
    pub t_request: u64,
    pub status: Option<u16>,
    pub warning: Option<u16>,
    pub t_response: u64,
    pub t_established: u64,
    /// (time, up, bytes requested, accepted by the sender without error)
    pub sent: Vec<(u64, bool, usize, bool)>,
    /// times at which bytes arrived at the destination / the client
    pub host_rx_times: Vec<(u64, usize)>,
    pub client_rx_times: Vec<(u64, usize)>,
    pub t_client_end: Option<u64>,
    pub client_end_clean: Option<bool>,
    pub t_host_closed: Option<u64>,
    /// times at which the endpoint wrote payload into the destination's socket
    pub host_write_times: Vec<u64>,
    pub census_end: world::Census,
    pub pending_after: i64,
    pub abandoned: u64,
}

type Shared<T> = Arc<Mutex<T>>;

async fn run(plan: TPlan) -> Obs {
    let obs: Shared<Obs> = Arc::new(Mutex::new(Obs::default()));
    let cfg = EpConfig {
        tcp_timeout_us: plan.idle_timeout_us,
        establish_timeout_us: plan.establish_timeout_us,
        ..EpConfig::default()
    };
    let ep = match endpoint::build(&cfg, endpoint::registry(&cfg)) {
        Ok(e) => e,
        Err(e) => {
            obs.lock().unwrap().setup_error = Some(e);
            return obs.lock().unwrap().clone();
        }
    };
    let (dns_delay, conn_delay, conn_outcome, dns_outcome) = match plan.mode {
        Mode::Idle => (0, 200, ConnectOutcome::Ok, None),
        Mode::Establish(d, c) => (d, c, ConnectOutcome::Ok, Some(DnsOutcome::Answer(vec![dest()]))),
        Mode::EstablishNever => (0, 0, ConnectOutcome::Never, None),
        Mode::ResolveNever => (0, 0, ConnectOutcome::Ok, Some(DnsOutcome::Never)),
    };
    let by_name = dns_outcome.is_some() && (dns_delay > 0 || plan.mode == Mode::ResolveNever);
    world::with(|w| {
        w.hosts.insert(
            dest(),
            HostPlan {
                outcome: conn_outcome,
                delay: Duration::from_micros(conn_delay),
                to_host_cap: plan.to_host_cap,
                ..HostPlan::default()
            },
        );
        if let Some(o) = dns_outcome {
            w.dns.insert(
                "slow.sim.test:443".into(),
                DnsPlan {
                    outcomes: vec![o],
                    delay: Duration::from_micros(dns_delay),
                },
            );
        }
    });
    let target = if by_name { "slow.sim.test:443".to_string() } else { dest().to_string() };

    // destination
    let host_conn: Shared<Option<PeerConn>> = Arc::new(Mutex::new(None));
    let host = {
        let obs = obs.clone();
        let host_conn = host_conn.clone();
        let stops = plan.host_stops_reading_after;
        let slow = plan.host_slow_drain;
        tokio::spawn(async move {
            let (_, conn) = world::next_established().await;
            *host_conn.lock().unwrap() = Some(conn.clone());
            let mut got = 0u64;
            loop {
                if let Some((n, gap)) = slow {
                    match conn.read(n).await {
                        PeerRead::Data(d) => {
                            got += d.len() as u64;
                            obs.lock().unwrap().host_rx_times.push((world::now_us(), d.len()));
                            sleep_us(gap).await;
                            continue;
                        }
                        _ => break,
                    }
                }
                if let Some(s) = stops {
                    if got >= s {
                        // the destination stops reading: back-pressure from here on
                        break;
                    }
                }
                match conn.read(64 * 1024).await {
                    PeerRead::Data(d) => {
                        got += d.len() as u64;
                        obs.lock().unwrap().host_rx_times.push((world::now_us(), d.len()));
                    }
                    _ => break,
                }
            }
            loop {
                if conn.endpoint_closed_both() {
                    let mut o = obs.lock().unwrap();
                    if o.t_host_closed.is_none() {
                        o.t_host_closed = Some(world::now_us());
                    }
                    break;
                }
                sleep_us(1_000).await;
            }
        })
    };

    let (stream, peer) = world::client_conn("203.0.113.20:50000".parse().unwrap(), 1 << 20, 1 << 20, EpFaults::default());
    let session = {
        let core = ep.core.clone();
        let h2 = plan.h2;
        tokio::spawn(async move { core.verif_serve_session(h2, stream, "vpn.example".into(), None).await })
    };

    let drain_us: u64 = plan
        .host_slow_drain
        .map(|(n, gap)| (plan.xfers.iter().map(|x| x.len).sum::<usize>() / n.max(1) + 2) as u64 * (gap + 1_000))
        .unwrap_or(0);
    let total_plan_us: u64 = plan.xfers.iter().map(|x| x.after_us).sum::<u64>() + drain_us;
    let window = Duration::from_micros(
        total_plan_us + 4 * plan.idle_timeout_us + 2 * plan.establish_timeout_us + 10_000_000,
    );
    let client = {
        let obs = obs.clone();
        let plan = plan.clone();
        let peer = peer.clone();
        let host_conn = host_conn.clone();
        async move {
            if plan.h2 {
                h2_client(plan, target, peer, obs, host_conn).await
            } else {
                h1_client(plan, target, peer, obs, host_conn).await
            }
        }
    };
    let _ = tokio::time::timeout(window, client).await;
    tokio::time::sleep(Duration::from_micros(2 * plan.idle_timeout_us + 1_000_000)).await;
    {
        let mut o = obs.lock().unwrap();
        world::with(|w| {
            o.pending_after = w.census.tcp_pending_connects;
            o.abandoned = *w.counters.get("connect_abandoned").unwrap_or(&0);
        });
    }
    peer.shutdown_write();
    peer.stop_reading();
    tokio::time::sleep(Duration::from_secs(3)).await;
    session.abort();
    host.abort();
    let mut o = obs.lock().unwrap().clone();
    o.census_end = world::with(|w| w.census.clone());
    if let Some(c) = host_conn.lock().unwrap().as_ref() {
        let id = c.id();
        o.host_write_times = world::with(|w| {
            w.trace
                .iter()
                .filter(|e| e.kind == world::Ev::TcpWrite && e.obj == id && e.a > 0)
                .map(|e| e.t_us)
                .collect()
        });
    }
    o
}

async fn host_send(host_conn: &Shared<Option<PeerConn>>, data: &[u8]) -> bool {
    let c = host_conn.lock().unwrap().clone();
    match c {
        Some(c) => c.write_all(data).await.is_ok(),
        None => false,
    }
}

async fn h2_client(plan: TPlan, target: String, peer: PeerConn, obs: Shared<Obs>, host_conn: Shared<Option<PeerConn>>) {
    let c = match h2_connect(peer, H2Params { initial_window: 1 << 20, conn_window: 4 << 20, ..Default::default() }, Rng::new(plan.seed)).await {
        Ok(c) => c,
        Err(e) => {
            obs.lock().unwrap().setup_error = Some(e);
            return;
        }
    };
    let mut send = c.send;
    let req = http::Request::builder()
        .method("CONNECT")
        .uri(target.as_str())
        .header("proxy-authorization", basic_auth("u0", "p0-secret-password"))
        .body(())
        .unwrap();
    let _ = std::future::poll_fn(|cx| send.poll_ready(cx)).await;
    obs.lock().unwrap().t_request = world::now_us();
    let (resp, mut tx) = match send.send_request(req, false) {
        Ok(x) => x,
        Err(_) => return,
    };
    let resp = match resp.await {
        Ok(r) => r,
        Err(_) => return,
    };
    {
        let mut o = obs.lock().unwrap();
        o.status = Some(resp.status().as_u16());
        o.t_response = world::now_us();
        o.warning = resp
            .headers()
            .get("x-warning")
            .and_then(|v| v.to_str().ok())
            .and_then(|v| v.split(' ').next())
            .and_then(|v| v.parse().ok());
        o.t_established = o.t_response;
    }
    if resp.status() != 200 {
        return;
    }
    let mut body = resp.into_body();
    let reader = {
        let obs = obs.clone();
        tokio::spawn(async move {
            loop {
                match body.data().await {
                    Some(Ok(d)) => {
                        let _ = body.flow_control().release_capacity(d.len());
                        obs.lock().unwrap().client_rx_times.push((world::now_us(), d.len()));
                    }
                    Some(Err(_)) => {
                        let mut o = obs.lock().unwrap();
                        o.t_client_end = Some(world::now_us());
                        o.client_end_clean = Some(false);
                        break;
                    }
                    None => {
                        let mut o = obs.lock().unwrap();
                        o.t_client_end = Some(world::now_us());
                        o.client_end_clean = Some(true);
                        break;
                    }
                }
            }
        })
    };
    for (k, x) in plan.xfers.iter().enumerate() {
        sleep_us(x.after_us).await;
        let data = pattern(plan.seed ^ k as u64, 0, x.len);
        let t = world::now_us();
        let ok = if x.up {
            tx.reserve_capacity(x.len);
            tx.send_data(Bytes::from(data), false).is_ok()
        } else {
            host_send(&host_conn, &data).await
        };
        obs.lock().unwrap().sent.push((t, x.up, x.len, ok));
        if let Some((at, client)) = plan.half_close {
            if at == k {
                if client {
                    let _ = tx.send_data(Bytes::new(), true);
                } else if let Some(c) = host_conn.lock().unwrap().clone() {
                    c.shutdown_write();
                }
            }
        }
    }
    // silence from here on: wait for the endpoint to close the tunnel
    let _ = reader.await;
    let _ = c.driver;
}

async fn h1_client(plan: TPlan, target: String, peer: PeerConn, obs: Shared<Obs>, host_conn: Shared<Option<PeerConn>>) {
    let head = format!(
        "CONNECT {t} HTTP/1.1\r\nHost: {t}\r\nProxy-Authorization: {a}\r\n\r\n",
        t = target,
        a = basic_auth("u0", "p0-secret-password")
    );
    obs.lock().unwrap().t_request = world::now_us();
    if peer.write_all(head.as_bytes()).await.is_err() {
        return;
    }
    let rest = match h1_read_head(&peer).await {
        H1ReadHead::Head(h, rest) => {
            let mut o = obs.lock().unwrap();
            o.status = Some(h.status);
            o.t_response = world::now_us();
            o.t_established = o.t_response;
            o.warning = h
                .header_str("x-warning")
                .and_then(|v| v.split(' ').next().and_then(|c| c.parse().ok()));
            rest
        }
        _ => return,
    };
    if obs.lock().unwrap().status != Some(200) {
        return;
    }
    let reader = {
        let obs = obs.clone();
        let peer = peer.clone();
        tokio::spawn(async move {
            if !rest.is_empty() {
                obs.lock().unwrap().client_rx_times.push((world::now_us(), rest.len()));
            }
            loop {
                match peer.read(64 * 1024).await {
                    PeerRead::Data(d) => obs.lock().unwrap().client_rx_times.push((world::now_us(), d.len())),
                    PeerRead::Eof => {
                        let mut o = obs.lock().unwrap();
                        o.t_client_end = Some(world::now_us());
                        o.client_end_clean = Some(true);
                        break;
                    }
                    PeerRead::Reset => {
                        let mut o = obs.lock().unwrap();
                        o.t_client_end = Some(world::now_us());
                        o.client_end_clean = Some(false);
                        break;
                    }
                }
            }
        })
    };
    for (k, x) in plan.xfers.iter().enumerate() {
        sleep_us(x.after_us).await;
        let data = pattern(plan.seed ^ k as u64, 0, x.len);
        let t = world::now_us();
        let ok = if x.up {
            peer.write_all(&data).await.is_ok()
        } else {
            host_send(&host_conn, &data).await
        };
        obs.lock().unwrap().sent.push((t, x.up, x.len, ok));
    }
    let _ = reader.await;
}

fn judge(plan: &TPlan, o: &Obs, out: &mut Outcome) {
    if let Some(e) = &o.setup_error {
        out.violate("HARNESS", "timeouts-setup", e.clone());
        return;
    }
    let proto = if plan.h2 { "h2" } else { "h1" };
    let ms = 1_000u64;
    match plan.mode {
        Mode::Establish(d, c) => {
            let total = d + c;
            let limit = plan.establish_timeout_us;
            let took = o.t_response.saturating_sub(o.t_request);
            out.cell(format!("establish:{}:{}pct", proto, total * 100 / limit.max(1)));
            out.nontrivial = true;
            if total + 3 * ms < limit {
                if o.status != Some(200) {
                    out.violate(
                        "C14",
                        format!("establish:{}:in-time-connect-failed", proto),
                        format!("connect taking {} us under a limit of {} us answered {:?}/{:?}", total, limit, o.status, o.warning),
                    );
                }
            } else if total > limit + 3 * ms {
                if o.status != Some(502) || o.warning != Some(302) {
                    out.violate(
                        "C14",
                        format!("establish:{}:late-connect-not-timed-out", proto),
                        format!("connect taking {} us over a limit of {} us answered {:?}/{:?}", total, limit, o.status, o.warning),
                    );
                } else if took + 3 * ms < limit || took > limit + 5 * ms {
                    out.violate(
                        "C14",
                        format!("establish:{}:timeout-at-wrong-time", proto),
                        format!("502/302 after {} us, limit {} us", took, limit),
                    );
                }
                if o.pending_after != 0 {
                    out.violate(
                        "C14",
                        format!("establish:{}:pending-connect-not-dropped", proto),
                        format!("{} connects still pending after the time-out", o.pending_after),
                    );
                }
            }
        }
        Mode::EstablishNever | Mode::ResolveNever => {
            let limit = plan.establish_timeout_us;
            let took = o.t_response.saturating_sub(o.t_request);
            out.cell(format!("establish:{}:{:?}", proto, plan.mode));
            out.nontrivial = true;
            if o.status != Some(502) || o.warning != Some(302) {
                out.violate(
                    "C14",
                    format!("establish:{}:{:?}:answered-{:?}-{:?}", proto, plan.mode, o.status, o.warning),
                    format!("attempt that never completes answered {:?}/{:?}", o.status, o.warning),
                );
            } else if took + 3 * ms < limit || took > limit + 5 * ms {
                out.violate(
                    "C14",
                    format!("establish:{}:timeout-at-wrong-time", proto),
                    format!("502/302 after {} us, limit {} us", took, limit),
                );
            }
            if o.pending_after != 0 || o.census_end.tcp_out_open != 0 {
                out.violate(
                    "C14",
                    format!("establish:{}:attempt-not-released", proto),
                    format!("pending {} open {}", o.pending_after, o.census_end.tcp_out_open),
                );
            }
        }
        Mode::Idle => {
            if o.status != Some(200) {
                out.violate("C14", format!("idle:{}:not-established", proto), format!("status {:?}", o.status));
                return;
            }
            let t = plan.idle_timeout_us;
            // activity instants as the pipe saw them: establishment, then every delivery
            let mut acts: Vec<u64> = vec![o.t_established];
            acts.extend(o.host_write_times.iter());
            acts.extend(o.client_rx_times.iter().map(|x| x.0));
            acts.sort();
            let last = *acts.last().unwrap();
            // the tunnel is gone when the endpoint has released the destination's socket; the
            // end of the client's receive direction also counts unless the destination ended
            // that direction itself
            let host_half_closed = matches!(plan.half_close, Some((_, false)));
            let closed = match (o.t_client_end, o.t_host_closed) {
                (Some(a), Some(b)) if !host_half_closed => Some(a.min(b)),
                (_, Some(b)) => Some(b),
                (a, None) if !host_half_closed => a,
                _ => None,
            };
            let stalled = plan.host_stops_reading_after.is_some();
            out.cell(format!(
                "idle:{}:{}{}{}{}",
                proto,
                if plan.xfers.is_empty() { "no-traffic" } else { "traffic" },
                if plan.half_close.is_some() { ":half-close" } else { "" },
                if stalled { ":stall" } else { "" },
                if plan.host_slow_drain.is_some() { ":slow-drain" } else { "" }
            ));
            out.nontrivial = true;
            // planned silences (between consecutive planned transfers): never longer than T - 3 ms?
            // A zero-length transfer (an empty DATA frame, say) moves no data: the statement
            // neither requires nor forbids that it counts as activity. Silences are measured
            // between transfers that carry data; an empty one only widens the upper bound.
            let mut max_gap = 0u64;
            let mut since_real = 0u64;
            let mut at = o.t_established;
            let mut last_real_planned = o.t_established;
            let mut last_empty: Option<u64> = None;
            for x in &plan.xfers {
                at += x.after_us;
                since_real += x.after_us;
                if x.len > 0 {
                    max_gap = max_gap.max(since_real);
                    since_real = 0;
                    last_real_planned = at;
                } else {
                    last_empty = Some(at);
                }
            }
            let kept_alive = max_gap + 3 * ms < t;
            // (1) never closed by the timer while transfers come at least every T
            if kept_alive && !stalled {
                let planned_end: u64 = last_real_planned;
                let failed: Vec<_> = o.sent.iter().filter(|s| !s.3).collect();
                let delivered = o.host_rx_times.iter().map(|x| x.1).sum::<usize>()
                    + o.client_rx_times.iter().map(|x| x.1).sum::<usize>();
                let wanted: usize = plan.xfers.iter().map(|x| x.len).sum();
                let early = closed.map(|c| c + 3 * ms < planned_end).unwrap_or(false);
                if early || !failed.is_empty() || delivered != wanted {
                    out.violate(
                        "C14",
                        format!(
                            "idle:{}:closed-while-active{}",
                            proto,
                            if plan.half_close.is_some() { ":after-half-close" } else { "" }
                        ),
                        format!(
                            "T = {} us, longest planned silence {} us; tunnel closed at {:?} (plan ends at {}), {} of {} bytes delivered, {} sends failed, half_close {:?}",
                            t, max_gap, closed, planned_end, delivered, wanted, failed.len(), plan.half_close
                        ),
                    );
                    return;
                }
            }
            // (1b) whatever the pattern: the idle timer never closes a tunnel whose last
            // transfer (as the world recorded it) is younger than T
            if let Some(c) = closed {
                let before: Option<u64> = acts.iter().filter(|a| **a <= c).max().copied();
                let delivered_up: usize = o.host_rx_times.iter().map(|x| x.1).sum();
                let wanted_up: usize = plan.xfers.iter().filter(|x| x.up).map(|x| x.len).sum();
                if let Some(b) = before {
                    if c + 3 * ms < b + t && plan.half_close.is_none() && !stalled && (delivered_up < wanted_up || plan.host_slow_drain.is_none()) && plan.host_slow_drain.is_some() {
                        out.violate(
                            "C14",
                            format!("idle:{}:closed-while-draining", proto),
                            format!(
                                "T = {} us; the tunnel was closed at {} us, {} us after the last transfer at {} us ({} of {} upload bytes delivered, destination draining {:?})",
                                t, c, c - b, b, delivered_up, wanted_up, plan.host_slow_drain
                            ),
                        );
                        return;
                    }
                }
            }
            // (2) closed no later than 2T after the last activity, and not before T
            match closed {
                None => out.violate(
                    "C14",
                    format!("idle:{}:never-closed{}", proto, if stalled { ":stall" } else { "" }),
                    format!("T = {} us; last activity at {} us; tunnel still open {} us later", t, last, 2 * t + 1_000_000),
                ),
                Some(c) => {
                    // anything a peer handed to the endpoint may have been taken in as activity
                    // even if it could not be delivered (destination not reading)
                    let last_offered = o.sent.iter().filter(|x| x.3).map(|x| x.0).max().unwrap_or(0);
                    if c > last.max(last_empty.unwrap_or(0)).max(last_offered) + 2 * t + 5 * ms {
                        out.violate(
                            "C14",
                            format!("idle:{}:closed-late", proto),
                            format!("T = {} us; last activity at {}; closed at {} (> last + 2T)", t, last, c),
                        );
                    }
                    if kept_alive && !stalled && plan.half_close.is_none() && c + 3 * ms < last + t {
                        out.violate(
                            "C14",
                            format!("idle:{}:closed-early", proto),
                            format!("T = {} us; last activity at {}; closed at {} (< last + T)", t, last, c),
                        );
                    }
                }
            }
            if o.census_end.tcp_out_open != 0 || o.census_end.tcp_in_open != 0 {
                out.violate(
                    "C14",
                    format!("idle:{}:sockets-not-released", proto),
                    format!("{:?}", o.census_end),
                );
            }
        }
    }
}
