//! C08: the HTTP/1.1 transport under every segmentation of the client's byte stream.
//! The request head and the payload behind it are written in planned pieces with planned
//! gaps; the reference says what the unsegmented input means, and the endpoint must behave
//! the same for every segmentation, without spinning while a head is incomplete.

use crate::actors::*;
use crate::endpoint::{self, EpConfig, FRACTION_US};
use crate::prng::Rng;
use crate::scenario::*;
use crate::sim::{self, Outcome};
use crate::world::{self, DnsOutcome, DnsPlan, EpFaults, HostPlan, PeerRead};
use serde::{Deserialize, Serialize};
use serde_json::Value;
use std::net::SocketAddr;
use std::sync::{Arc, Mutex};
use std::time::Duration;

pub struct H1;

#[derive(Clone, Debug, Serialize, Deserialize, PartialEq)]
pub enum Kind {
    Connect,
    Check,
    /// plain HTTP GET/POST with a body, forwarded to the origin
    Plain,
}

#[derive(Clone, Debug, Serialize, Deserialize, PartialEq)]
pub enum Defect {
    None,
    TooManyHeaders,
    TooLong,
    BadVersion,
    NulInName,
    NoColon,
    SpaceInMethod,
}

#[derive(Clone, Debug, Serialize, Deserialize)]
pub struct H1Plan {
    pub seed: u64,
    pub kind: Kind,
    pub defect: Defect,
    /// extra header lines (name, value)
    pub extra: Vec<(String, String)>,
    pub host_header_first: bool,
    pub lower_case_names: bool,
    pub payload_len: usize,
    pub download_len: usize,
    /// sizes of the pieces the client writes (the rest goes in one piece)
    pub cuts: Vec<usize>,
    pub gaps_us: Vec<u64>,
    pub read_cut: CutP,
    /// how many bytes of a write the endpoint's socket takes at a time (short writes)
    #[serde(default)]
    pub write_cut: CutP,
    pub listener_timeout_us: u64,
    pub upload_buffer: usize,
}

const DEST: &str = "origin.sim.test";

fn dest_addr() -> SocketAddr {
    "93.184.216.34:8443".parse().unwrap()
}

fn plain_addr() -> SocketAddr {
    "93.184.216.34:80".parse().unwrap()
}

pub fn build_head(p: &H1Plan) -> Vec<u8> {
    let n = |s: &str| if p.lower_case_names { s.to_ascii_lowercase() } else { s.to_string() };
    let mut lines: Vec<String> = Vec::new();
    let version = if p.defect == Defect::BadVersion { "HTTP/2.0" } else { "HTTP/1.1" };
    let (request_line, host) = match p.kind {
        Kind::Connect => (format!("CONNECT {}:8443 {}", DEST, version), format!("{}:8443", DEST)),
        Kind::Check => (format!("CONNECT _check {}", version), "_check".to_string()),
        Kind::Plain => (format!("POST http://{}/upload?x=1 {}", DEST, version), DEST.to_string()),
    };
    let request_line = if p.defect == Defect::SpaceInMethod {
        format!("CON NECT{}", &request_line[7..])
    } else {
        request_line
    };
    let host_line = format!("{}: {}", n("Host"), host);
    if p.host_header_first {
        lines.push(host_line.clone());
    }
    lines.push(format!("{}: {}", n("Proxy-Authorization"), basic_auth("u0", "p0-secret-password")));
    if p.kind == Kind::Plain {
        lines.push(format!("{}: {}", n("Content-Length"), p.payload_len));
    }
    for (k, v) in &p.extra {
        lines.push(format!("{}: {}", k, v));
    }
    if !p.host_header_first {
        lines.push(host_line);
    }
    match p.defect {
        Defect::NulInName => lines.push("X-Bad\0Name: 1".into()),
        Defect::NoColon => lines.push("X-No-Colon-Here".into()),
        _ => {}
    }
    let mut head = format!("{}\r\n", request_line).into_bytes();
    for l in lines {
        head.extend_from_slice(l.as_bytes());
        head.extend_from_slice(b"\r\n");
    }
    head.extend_from_slice(b"\r\n");
    head
}

fn header_count(p: &H1Plan) -> usize {
    2 + p.extra.len()
        + (p.kind == Kind::Plain) as usize
        + matches!(p.defect, Defect::NulInName | Defect::NoColon) as usize
}

const TOKEN: &[u8] = b"abcdefghijklmnopqrstuvwxyzABCDEFGHIJKLMNOPQRSTUVWXYZ0123456789-_";

fn draw_extra(rng: &mut Rng, count: usize, budget: usize) -> Vec<(String, String)> {
    let mut v = Vec::new();
    let mut used = 0;
    for i in 0..count {
        let remaining = budget.saturating_sub(used);
        let per = (remaining / (count - i).max(1)).max(8);
        let nl = 1 + rng.usize_below(10.min(per / 2).max(1));
        let vl = rng.usize_below(per.saturating_sub(nl + 4).max(1));
        let name: String = format!(
            "X{}-{}",
            i,
            (0..nl).map(|_| *rng.pick(TOKEN) as char).collect::<String>()
        );
        let value: String = (0..vl)
            .map(|_| if rng.chance(1, 12) { ' ' } else { *rng.pick(TOKEN) as char })
            .collect::<String>()
            .trim()
            .to_string();
        used += name.len() + value.len() + 4;
        v.push((name, value));
    }
    v
}

fn base_plan(rng: &mut Rng) -> H1Plan {
    H1Plan {
        seed: rng.next_u64(),
        kind: Kind::Connect,
        defect: Defect::None,
        extra: vec![],
        host_header_first: true,
        lower_case_names: false,
        payload_len: 0,
        download_len: 0,
        cuts: vec![],
        gaps_us: vec![],
        read_cut: CutP::all(),
        write_cut: CutP::all(),
        listener_timeout_us: 600_000_000 + FRACTION_US,
        upload_buffer: 32 * 1024,
    }
}

/// The canonical short heads whose every 1-cut is enumerated
fn canonical(k: usize, rng: &mut Rng) -> H1Plan {
    let mut p = base_plan(rng);
    match k % 6 {
        0 => {}
        1 => p.kind = Kind::Check,
        2 => {
            p.kind = Kind::Plain;
            p.payload_len = 40;
        }
        3 => {
            p.payload_len = 64;
            p.download_len = 32;
        }
        4 => {
            p.host_header_first = false;
            p.lower_case_names = true;
            p.extra = vec![("X-A".into(), "b".into()), ("x-c".into(), "".into())];
            p.payload_len = 3;
        }
        _ => {
            p.extra = vec![("Accept".into(), "*/*".into())];
            p.payload_len = 200;
            p.download_len = 300;
        }
    }
    p
}

fn canonical_total_len(k: usize) -> usize {
    let mut rng = Rng::new(0);
    let p = canonical(k, &mut rng);
    build_head(&p).len() + p.payload_len
}

impl Scenario for H1 {
    fn name(&self) -> &'static str {
        "h1"
    }

    fn budget(&self, tier: Tier) -> u64 {
        match tier {
            Tier::Quick => 100_000,
            Tier::Thorough => 6_000_000,
        }
    }

    fn systematic(&self, _tier: Tier) -> u64 {
        (0..6).map(|k| canonical_total_len(k) as u64 - 1).sum()
    }

    fn generate(&self, seed: u64, index: u64, _tier: Tier) -> Value {
        let mut rng = Rng::new(seed).fork(&format!("h1-{}", index));
        // enumerated: every 1-cut of every canonical input
        let mut off = index;
        for k in 0..6 {
            let n = canonical_total_len(k) as u64 - 1;
            if off < n {
                let mut p = canonical(k, &mut rng);
                p.cuts = vec![off as usize + 1];
                p.gaps_us = vec![if index % 2 == 0 { 0 } else { 1_500 }];
                return to_plan(&p);
            }
            off -= n;
        }
        let mut p = base_plan(&mut rng);
        p.kind = match rng.below(10) {
            0 => Kind::Check,
            1 | 2 => Kind::Plain,
            _ => Kind::Connect,
        };
        p.host_header_first = rng.chance(1, 2);
        p.lower_case_names = rng.chance(1, 4);
        p.payload_len = match rng.below(4) {
            0 => 0,
            1 => rng.usize_below(64),
            _ => rng.size(1, 8 * 1024) as usize,
        };
        if p.kind == Kind::Check {
            p.payload_len = 0;
        }
        p.download_len = if p.kind == Kind::Connect && rng.chance(1, 2) {
            rng.size(1, 8 * 1024) as usize
        } else {
            0
        };
        p.defect = if rng.chance(1, 5) {
            match rng.below(6) {
                0 => Defect::TooManyHeaders,
                1 => Defect::TooLong,
                2 => Defect::BadVersion,
                3 => Defect::NulInName,
                4 => Defect::NoColon,
                _ => Defect::SpaceInMethod,
            }
        } else {
            Defect::None
        };
        let fixed = 2 + (p.kind == Kind::Plain) as usize;
        match p.defect {
            Defect::TooManyHeaders => {
                let count = 33 - fixed + rng.usize_below(3);
                p.extra = draw_extra(&mut rng, count, 500);
            }
            Defect::TooLong => {
                // pad one header so that the head exceeds 1024 bytes by 1..300
                let count = rng.usize_below(8);
                p.extra = draw_extra(&mut rng, count, 300);
                let base = build_head(&p).len();
                let target = 1025 + rng.usize_below(300);
                let pad = target.saturating_sub(base + 9);
                p.extra.push(("X-Pad".into(), "p".repeat(pad.max(1))));
            }
            _ => {
                // sizes up to exactly the limit, header counts up to exactly the limit
                let count = match rng.below(4) {
                    0 => 32 - fixed,
                    1 => 0,
                    _ => rng.usize_below(32 - fixed),
                };
                p.extra = draw_extra(&mut rng, count, 600);
                if rng.chance(1, 6) {
                    let base = build_head(&p).len();
                    if base + 9 < 1024 && p.extra.len() + fixed < 32 {
                        p.extra.push(("X-Pad".into(), "p".repeat(1024 - base - 9)));
                    }
                }
            }
        }
        let total = build_head(&p).len() + p.payload_len;
        // segmentation: 1-, 2-, 3-cuts, byte-at-a-time over the head, random pieces
        let n_cuts = match rng.below(6) {
            0 => 0,
            1 => 1,
            2 => 2,
            3 => 3,
            4 => total.min(400),
            _ => 1 + rng.usize_below(12),
        };
        p.cuts = (0..n_cuts)
            .map(|_| {
                if n_cuts >= 400.min(total) {
                    1
                } else {
                    1 + rng.usize_below((total / n_cuts.max(1)).max(1) * 2)
                }
            })
            .collect();
        let small_timeout = rng.chance(1, 8);
        if small_timeout {
            p.listener_timeout_us = rng.size(5_000, 200_000) + FRACTION_US;
        }
        p.gaps_us = (0..p.cuts.len())
            .map(|_| match rng.below(4) {
                0 => 0,
                1 => rng.size(1, 3_000),
                2 if small_timeout => rng.size(1, p.listener_timeout_us * 2),
                _ => rng.size(1, 50_000),
            })
            .collect();
        if !small_timeout && n_cuts > 50 {
            for g in p.gaps_us.iter_mut() {
                *g = (*g).min(1_000);
            }
        }
        p.read_cut = CutP::draw(&mut rng, 2048);
        p.write_cut = CutP::draw(&mut rng, 512);
        p.upload_buffer = if rng.chance(1, 2) { 32 * 1024 } else { rng.size(1, 64 * 1024) as usize };
        to_plan(&p)
    }

    fn execute(&self, plan: &Value) -> Outcome {
        let plan: H1Plan = match from_plan(plan) {
            Ok(p) => p,
            Err(e) => return harness_error(e),
        };
        let p2 = plan.clone();
        let (obs, rep) = sim::run(plan.seed, Duration::from_secs(3600 * 24), move || run(p2));
        let mut out = Outcome::default();
        match obs {
            Some(obs) => judge(&plan, &obs, &mut out),
            None => {
                if !rep.main_panicked {
                    out.inconclusive = true;
                }
            }
        }
        sim::finish(out, &rep)
    }
}

#[derive(Debug, Default, Clone)]
pub struct Obs {
    pub setup_error: Option<String>,
    pub head_len: usize,
    pub written_all: bool,
    pub status: Option<u16>,
    pub head_raw: Vec<u8>,
    pub malformed: Option<String>,
    pub closed_before_head: bool,
    pub client_rx: Vec<u8>,
    pub client_end_clean: Option<bool>,
    pub connects: Vec<SocketAddr>,
    pub dns: Vec<String>,
    pub host_rx: Vec<u8>,
    pub host_saw_end: bool,
    pub endpoint_read: u64,
    pub census: world::Census,
    pub session_ended: bool,
}

fn up_tag(seed: u64) -> u64 {
    seed ^ 0x1111
}
fn down_tag(seed: u64) -> u64 {
    seed ^ 0x2222
}

async fn run(plan: H1Plan) -> Obs {
    let mut obs = Obs::default();
    let cfg = EpConfig {
        listener_timeout_us: plan.listener_timeout_us,
        h1_upload_buffer: plan.upload_buffer,
        ..EpConfig::default()
    };
    let ep = match endpoint::build(&cfg, endpoint::registry(&cfg)) {
        Ok(e) => e,
        Err(e) => {
            obs.setup_error = Some(e);
            return obs;
        }
    };
    world::with(|w| {
        for (name, addr) in [(format!("{}:8443", DEST), dest_addr()), (format!("{}:80", DEST), plain_addr())] {
            w.dns.insert(
                name,
                DnsPlan {
                    outcomes: vec![DnsOutcome::Answer(vec![addr])],
                    delay: Duration::from_micros(200),
                },
            );
            w.hosts.insert(addr, HostPlan::default());
        }
    });
    let host_rx: Arc<Mutex<(Vec<u8>, bool)>> = Arc::new(Mutex::new((Vec::new(), false)));
    let host = {
        let host_rx = host_rx.clone();
        let plan = plan.clone();
        tokio::spawn(async move {
            let (addr, conn) = world::next_established().await;
            if addr == plain_addr() {
                // an origin: read head + body, answer, close
                let mut buf = Vec::new();
                let mut body_start = None;
                loop {
                    if body_start.is_none() {
                        body_start = find(&buf, b"\r\n\r\n").map(|i| i + 4);
                    }
                    if let Some(s) = body_start {
                        if buf.len() >= s + plan.payload_len {
                            break;
                        }
                    }
                    match conn.read(4096).await {
                        PeerRead::Data(d) => {
                            buf.extend_from_slice(&d);
                            host_rx.lock().unwrap().0 = buf.clone();
                        }
                        _ => {
                            host_rx.lock().unwrap().1 = true;
                            return;
                        }
                    }
                }
                let _ = conn
                    .write_all(b"HTTP/1.1 200 OK\r\nContent-Length: 2\r\nConnection: close\r\n\r\nok")
                    .await;
                conn.shutdown_write();
                loop {
                    match conn.read(4096).await {
                        PeerRead::Data(d) => host_rx.lock().unwrap().0.extend_from_slice(&d),
                        _ => break,
                    }
                }
                host_rx.lock().unwrap().1 = true;
            } else {
                // a tunnel destination: send the download, read the payload, then close
                let down = pattern(down_tag(plan.seed), 0, plan.download_len);
                let c2 = conn.clone();
                let w = tokio::spawn(async move {
                    let _ = c2.write_all(&down).await;
                });
                let mut got = 0usize;
                while got < plan.payload_len {
                    match conn.read(4096).await {
                        PeerRead::Data(d) => {
                            got += d.len();
                            host_rx.lock().unwrap().0.extend_from_slice(&d);
                        }
                        _ => {
                            host_rx.lock().unwrap().1 = true;
                            break;
                        }
                    }
                }
                let _ = w.await;
                conn.shutdown_write();
                loop {
                    match conn.read(4096).await {
                        PeerRead::Data(d) => host_rx.lock().unwrap().0.extend_from_slice(&d),
                        _ => break,
                    }
                }
                host_rx.lock().unwrap().1 = true;
            }
        })
    };

    let (stream, peer) = world::client_conn(
        "203.0.113.9:40000".parse().unwrap(),
        64 * 1024,
        64 * 1024,
        EpFaults {
            read_cut: plan.read_cut.to_cut(),
            write_cut: plan.write_cut.to_cut(),
            ..Default::default()
        },
    );
    let session = {
        let core = ep.core.clone();
        tokio::spawn(async move {
            core.verif_serve_session(false, stream, "vpn.example".into(), None).await
        })
    };

    let head = build_head(&plan);
    obs.head_len = head.len();
    let mut input = head.clone();
    input.extend_from_slice(&pattern(up_tag(plan.seed), 0, plan.payload_len));
    let writer = {
        let peer = peer.clone();
        let cuts = plan.cuts.clone();
        let gaps = plan.gaps_us.clone();
        tokio::spawn(async move { write_pieces(&peer, &input, &cuts, &gaps).await.is_ok() })
    };

    let total_gap: u64 = plan.gaps_us.iter().sum();
    let window = Duration::from_micros(total_gap + plan.listener_timeout_us.min(700_000_000) + 30_000_000);
    let reader = {
        let peer = peer.clone();
        let is_connect = plan.kind == Kind::Connect;
        let download_len = plan.download_len;
        async move {
            let mut o = Obs::default();
            match h1_read_head(&peer).await {
                H1ReadHead::Head(h, rest) => {
                    o.status = Some(h.status);
                    o.head_raw = h.raw.clone();
                    o.client_rx = rest;
                }
                H1ReadHead::Closed(b, how) => {
                    o.closed_before_head = true;
                    o.client_rx = b;
                    o.client_end_clean = Some(how == PeerRead::Eof);
                    return o;
                }
                H1ReadHead::Malformed(e, b) => {
                    o.malformed = Some(e);
                    o.client_rx = b;
                    return o;
                }
            }
            let mut fin_sent = false;
            loop {
                if is_connect && o.status == Some(200) && !fin_sent && o.client_rx.len() >= download_len {
                    // everything expected is in; the writer task ends the upload itself
                    fin_sent = true;
                }
                match peer.read(4096).await {
                    PeerRead::Data(d) => o.client_rx.extend_from_slice(&d),
                    PeerRead::Eof => {
                        o.client_end_clean = Some(true);
                        break;
                    }
                    PeerRead::Reset => {
                        o.client_end_clean = Some(false);
                        break;
                    }
                }
            }
            o
        }
    };
    let r = tokio::time::timeout(window, reader).await;
    let written_all = tokio::time::timeout(Duration::from_secs(1), writer).await;
    if let Ok(o) = r {
        obs.status = o.status;
        obs.head_raw = o.head_raw;
        obs.malformed = o.malformed;
        obs.closed_before_head = o.closed_before_head;
        obs.client_rx = o.client_rx;
        obs.client_end_clean = o.client_end_clean;
    }
    obs.written_all = matches!(written_all, Ok(Ok(true)));
    obs.endpoint_read = peer.totals().1;
    peer.shutdown_write();
    peer.stop_reading();
    tokio::time::sleep(Duration::from_secs(5)).await;
    obs.session_ended = session.is_finished();
    session.abort();
    host.abort();
    let h = host_rx.lock().unwrap().clone();
    obs.host_rx = h.0;
    obs.host_saw_end = h.1;
    world::with(|w| {
        obs.connects = w.connect_attempts.iter().map(|c| c.addr).collect();
        obs.dns = w.dns_queries.iter().map(|q| q.name.clone()).collect();
        obs.census = w.census.clone();
    });
    obs
}

fn judge(plan: &H1Plan, o: &Obs, out: &mut Outcome) {
    if let Some(e) = &o.setup_error {
        out.violate("HARNESS", "h1-setup", e.clone());
        return;
    }
    let head = build_head(plan);
    let over_count = header_count(plan) > 32;
    let over_size = head.len() > 1024;
    let invalid = plan.defect != Defect::None || over_count || over_size;
    // a gap at least as long as the listener time-out may legitimately end the session
    // (the time-out bounds the wait for a complete request, and, on HTTP/1.1, the session)
    let slow = plan.gaps_us.iter().sum::<u64>() + plan.gaps_us.len() as u64 * 1_000 + 3_000
        >= plan.listener_timeout_us;
    let seg = match plan.cuts.len() {
        0 => "whole",
        1 => "1-cut",
        2 => "2-cut",
        3 => "3-cut",
        n if n >= 100 => "bytewise",
        _ => "pieces",
    };
    // where the first cut falls
    let first = plan.cuts.first().copied().unwrap_or(usize::MAX);
    let region = if first >= head.len() {
        "after-head"
    } else if first > head.len() - 4 {
        "inside-crlfcrlf"
    } else if first < find(&head, b"\r\n").unwrap_or(0) {
        "inside-request-line"
    } else {
        "inside-headers"
    };
    out.cell(format!("{:?}:{:?}:{}:{}", plan.kind, plan.defect, seg, region));

    if let Some(m) = &o.malformed {
        out.violate("C08", "h1:malformed-response", format!("response is not a well-formed HTTP/1.1 head: {}", m));
        return;
    }
    if invalid {
        out.nontrivial = true;
        // rejected: never a 200, never egress; bounded consumption
        if o.status == Some(200) || !o.connects.is_empty() || !o.dns.is_empty() {
            let which = if over_size {
                "over-size"
            } else if over_count {
                "too-many-headers"
            } else {
                "malformed"
            };
            // a version or token the parser accepts is not a limit violation: only the
            // limits are the statement's business
            if over_size || over_count {
                out.violate(
                    "C08",
                    format!("h1:{}-head-accepted", which),
                    format!(
                        "a head of {} bytes with {} headers was accepted (status {:?}, {} connects) with cuts {:?}",
                        head.len(), header_count(plan), o.status, o.connects.len(), plan.cuts
                    ),
                );
            }
        }
        if o.endpoint_read > 1024 + 64 * 1024 {
            out.violate(
                "C08",
                "h1:unbounded-read-of-rejected-head",
                format!("endpoint consumed {} bytes of a request it rejects", o.endpoint_read),
            );
        }
        return;
    }
    if slow {
        return;
    }
    out.nontrivial = true;
    let expect_status = 200;
    match o.status {
        Some(s) if s == expect_status => {}
        other => {
            out.violate(
                "C08",
                format!("h1:{:?}:{}:{}:status-{:?}", plan.kind, seg, region, other),
                format!(
                    "valid request ({} byte head, {} headers) split as {:?} with gaps {:?}: status {:?}, closed before head: {}",
                    head.len(), header_count(plan), plan.cuts, plan.gaps_us, other, o.closed_before_head
                ),
            );
            return;
        }
    }
    match plan.kind {
        Kind::Check => {
            if !o.connects.is_empty() || !o.dns.is_empty() {
                out.violate("C08", "h1:check-egress", "health check caused egress".to_string());
            }
        }
        Kind::Connect => {
            if o.connects != vec![dest_addr()] {
                out.violate(
                    "C08",
                    format!("h1:connect:{}:wrong-destination", seg),
                    format!("contacted {:?} instead of {:?}", o.connects, dest_addr()),
                );
            }
            let want = pattern(up_tag(plan.seed), 0, plan.payload_len);
            if o.host_rx != want {
                let k = o.host_rx.iter().zip(&want).position(|(a, b)| a != b).unwrap_or(o.host_rx.len().min(want.len()));
                out.violate(
                    "C08",
                    format!("h1:connect:{}:{}:payload-differs", seg, region),
                    format!(
                        "destination received {} bytes, expected {}; first difference at {} (cuts {:?}, head {} bytes)",
                        o.host_rx.len(), want.len(), k, plan.cuts, head.len()
                    ),
                );
            }
            let wantd = pattern(down_tag(plan.seed), 0, plan.download_len);
            if o.client_rx != wantd {
                out.violate(
                    "C08",
                    format!("h1:connect:{}:download-differs", seg),
                    format!("client received {} bytes, expected {}", o.client_rx.len(), wantd.len()),
                );
            }
        }
        Kind::Plain => {
            if o.connects != vec![plain_addr()] {
                out.violate(
                    "C08",
                    format!("h1:plain:{}:wrong-destination", seg),
                    format!("contacted {:?} instead of {:?}", o.connects, plain_addr()),
                );
            }
            let want = pattern(up_tag(plan.seed), 0, plan.payload_len);
            let body = find(&o.host_rx, b"\r\n\r\n").map(|i| &o.host_rx[i + 4..]);
            if body != Some(&want[..]) {
                out.violate(
                    "C08",
                    format!("h1:plain:{}:{}:body-differs", seg, region),
                    format!(
                        "origin received body of {:?} bytes, expected {} (cuts {:?})",
                        body.map(|b| b.len()), want.len(), plan.cuts
                    ),
                );
            }
            if o.client_rx != b"ok" {
                out.violate(
                    "C08",
                    format!("h1:plain:{}:response-body-differs", seg),
                    format!("client received {:?}", String::from_utf8_lossy(&o.client_rx)),
                );
            }
        }
    }
    if !o.session_ended {
        out.violate("C08", "h1:session-not-ended", "session still running after the client left".to_string());
    }
}
