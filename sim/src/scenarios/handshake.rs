//! Two scenarios around the first flight of a TLS connection.
//!
//! `handshake` (path T, real rustls client): the client's writes are segmented and paced on the
//! virtual clock and stall once, for a planned fraction of the TLS handshake time-out or for
//! good, at a planned byte offset of its output. Decides the handshake clause of C14 (a
//! handshake that does not complete within its time-out is dropped, socket and task released;
//! one that is merely slow is served) and the transparency clause of C12 (whatever the
//! segmentation, record fragmentation and read sizes, the handshake and a request complete).
//!
//! `clienthello` (door: `TlsListener::listen`): byte-exact ClientHellos - built from a spec or
//! produced by rustls, optionally mutated - are delivered in planned pieces; the extracted
//! client random is compared with the reference reading of the bytes sent (C12).

use crate::actors::*;
use crate::endpoint::{self, EpConfig};
use crate::patht;
use crate::prng::Rng;
use crate::scenario::*;
use crate::sim::{self, Outcome};
use crate::tls::{build_hello, HelloSpec, TlsParams};
use crate::world::{self, EpFaults, Pace, PeerRead};
use bytes::Bytes;
use serde::{Deserialize, Serialize};
use serde_json::Value;
use std::io::ErrorKind;
use std::sync::Arc;
use std::time::Duration;
use tokio::io::AsyncWriteExt;

const LISTEN: &str = "198.51.100.1:443";

// =======================================================================================
// handshake
// =======================================================================================

pub struct Handshake;

#[derive(Clone, Debug, Serialize, Deserialize)]
pub struct HPlan {
    pub seed: u64,
    pub timeout_ms: u64,
    pub offer_h2: bool,
    pub max_fragment: Option<usize>,
    pub seg: CutP,
    pub gap_us: u64,
    /// the client stalls before the byte with this offset of its output leaves ...
    pub stall_at: Option<u64>,
    /// ... for this many percent of the handshake time-out (0 = for good)
    pub stall_pct: u64,
    /// what the stalled client does when the stall ends: 0 continue, 1 FIN, 2 RST
    pub after_stall: u8,
    pub ep_read: CutP,
    pub ep_spurious: u64,
    /// other clients shaking hands normally at the same time
    pub others: usize,
    /// the client never stalls but dribbles: pieces of 1-8 bytes, T/15 apart, so that its
    /// ClientHello alone takes longer than the time-out although no gap comes near it
    #[serde(default)]
    pub dribble: bool,
}

impl Scenario for Handshake {
    fn name(&self) -> &'static str {
        "handshake"
    }

    fn budget(&self, tier: Tier) -> u64 {
        match tier {
            Tier::Quick => 30_000,
            Tier::Thorough => 2_000_000,
        }
    }

    fn generate(&self, seed: u64, index: u64, _tier: Tier) -> Value {
        let mut rng = Rng::new(seed).fork(&format!("handshake{}", index));
        let timeout_ms = *rng.pick(&[200u64, 1_000, 3_000, 10_000, 30_000]);
        let seg = CutP::draw(&mut rng, 300);
        let stall = rng.chance(3, 4);
        let stall_pct = match rng.below(12) {
            0 | 1 => 0,
            2 => 10 + rng.below(60),
            3 | 4 => 70 + rng.below(10),
            5 => 99,
            6 => 101,
            7 | 8 => 125 + rng.below(25),
            9 => 150 + rng.below(150),
            _ => 20 + rng.below(60),
        };
        let plan = HPlan {
            seed: rng.next_u64(),
            timeout_ms,
            offer_h2: rng.chance(1, 2),
            max_fragment: match rng.below(5) {
                0 => Some(64),
                1 => Some(rng.size(65, 600) as usize),
                _ => None,
            },
            gap_us: if seg.kind == 0 && rng.chance(1, 2) { rng.size(1, timeout_ms * 1000 / 60) } else { 0 },
            seg,
            stall_at: if stall {
                Some(match rng.below(6) {
                    0 => 0,
                    1 => rng.below(44),
                    2 => rng.size(1, 700),
                    _ => rng.below(420),
                })
            } else {
                None
            },
            stall_pct,
            after_stall: if rng.chance(1, 5) { 1 + rng.below(2) as u8 } else { 0 },
            ep_read: CutP::draw(&mut rng, 200),
            ep_spurious: if rng.chance(1, 3) { 2 + rng.below(5) } else { 0 },
            others: if rng.chance(1, 3) { 1 + rng.usize_below(2) } else { 0 },
            dribble: false,
        };
        let mut plan = plan;
        if rng.chance(1, 8) {
            plan.dribble = true;
            plan.seg = CutP::fixed(1 + rng.usize_below(8));
            plan.gap_us = plan.timeout_ms * 1000 / 15;
            plan.stall_at = None;
            plan.max_fragment = None;
        }
        to_plan(&plan)
    }

    fn execute(&self, plan: &Value) -> Outcome {
        let plan: HPlan = match from_plan(plan) {
            Ok(p) => p,
            Err(e) => return harness_error(e),
        };
        let p2 = plan.clone();
        let (obs, rep) = sim::run(plan.seed, Duration::from_secs(24 * 3600), move || hs_run(p2));
        let mut out = Outcome::default();
        match obs {
            Some(obs) => hs_judge(&plan, &obs, &mut out),
            None => {
                if !rep.main_panicked {
                    out.inconclusive = true;
                }
            }
        }
        sim::finish(out, &rep)
    }
}

#[derive(Debug, Default, Clone)]
pub struct ClientObs {
    pub tls_ok_at: Option<u64>,
    pub tls_error: Option<String>,
    /// bytes the client had sent when its handshake completed
    pub hs_bytes: Option<u64>,
    pub status: Option<u16>,
    pub error: Option<String>,
    pub done_at: Option<u64>,
}

#[derive(Debug, Default, Clone)]
pub struct HObs {
    pub setup_error: Option<String>,
    pub t0: u64,
    pub main: ClientObs,
    pub others: Vec<ClientObs>,
    pub sent_total: u64,
    pub stall_started_at: Option<u64>,
    pub closed_at: Option<u64>,
    pub end: u64,
    pub census_end: world::Census,
    pub tasks_before: usize,
    pub tasks_end: usize,
    pub listen_ended: bool,
}

async fn probe(
    tls: crate::tls::TlsSession,
    o: &std::sync::Mutex<ClientObs>,
) {
    let is_h2 = tls.alpn.as_deref() == Some(b"h2");
    let auth = basic_auth("u0", "p0-secret-password");
    if is_h2 {
        let c = match h2_connect_io(tls.stream, H2Params::default()).await {
            Ok(c) => c,
            Err(e) => {
                o.lock().unwrap().error = Some(e);
                return;
            }
        };
        // the connection driver is a harness task: it must not outlive an aborted client
        struct AbortOnDrop(tokio::task::JoinHandle<Result<(), String>>);
        impl Drop for AbortOnDrop {
            fn drop(&mut self) {
                self.0.abort();
            }
        }
        let _driver = AbortOnDrop(c.driver);
        let mut send = c.send;
        let req = http::Request::builder()
            .method("CONNECT")
            .uri("_check")
            .header("proxy-authorization", auth.as_str())
            .body(())
            .unwrap();
        if std::future::poll_fn(|cx| send.poll_ready(cx)).await.is_err() {
            o.lock().unwrap().error = Some("h2 not ready".into());
            return;
        }
        match send.send_request(req, false) {
            Ok((resp, _tx)) => match resp.await {
                Ok(r) => o.lock().unwrap().status = Some(r.status().as_u16()),
                Err(e) => o.lock().unwrap().error = Some(e.to_string()),
            },
            Err(e) => o.lock().unwrap().error = Some(e.to_string()),
        }
    } else {
        let mut s = tls.stream;
        let req = format!("CONNECT _check HTTP/1.1\r\nHost: _check\r\nProxy-Authorization: {}\r\n\r\n", auth);
        if let Err(e) = s.write_all(req.as_bytes()).await {
            o.lock().unwrap().error = Some(e.to_string());
            return;
        }
        let _ = s.flush().await;
        match io_read_head(&mut s).await {
            Ok((h, _)) => o.lock().unwrap().status = Some(h.status),
            Err((e, _)) => o.lock().unwrap().error = Some(e),
        }
    }
}

async fn hs_run(plan: HPlan) -> HObs {
    // on TLS connections only semantic events are traced (the ciphertext depends on entropy the
    // simulation does not own): the plan's digest stands in for the bytes that were sent
    world::note(900, crate::prng::fnv64(serde_json::to_string(&plan).unwrap_or_default().as_bytes()), 0);
    let mut obs = HObs::default();
    let cfg = EpConfig {
        listen: LISTEN.parse().unwrap(),
        handshake_timeout_us: plan.timeout_ms * 1000,
        ..EpConfig::default()
    };
    let ep = match endpoint::build(&cfg, None) {
        Ok(e) => e,
        Err(e) => {
            obs.setup_error = Some(e);
            return obs;
        }
    };
    let listening = patht::start(&ep, cfg.listen).await;
    tokio::task::yield_now().await;
    let metrics = tokio::runtime::Handle::current().metrics();
    obs.tasks_before = metrics.num_alive_tasks();
    let t_us = plan.timeout_ms * 1000;
    let faults = EpFaults {
        read_cut: plan.ep_read.to_cut(),
        spurious_pending: plan.ep_spurious,
        ..EpFaults::default()
    };
    let conn = match patht::connect_raw(cfg.listen, "203.0.113.9:41000".parse().unwrap(), faults) {
        Some(c) => c,
        None => {
            obs.setup_error = Some("nothing listens".into());
            return obs;
        }
    };
    obs.t0 = world::now_us();
    let sni = cfg.main_hosts[0].hostname.clone();
    let alpn: Vec<Vec<u8>> = if plan.offer_h2 {
        vec![b"h2".to_vec(), b"http/1.1".to_vec()]
    } else {
        vec![b"http/1.1".to_vec()]
    };
    let stall_us = if plan.stall_pct == 0 { u64::MAX } else { t_us * plan.stall_pct / 100 };
    let main_obs = Arc::new(std::sync::Mutex::new(ClientObs::default()));
    let main = {
        let o = main_obs.clone();
        let conn = conn.clone();
        let params = TlsParams {
            sni: Some(sni.clone()),
            alpn: alpn.clone(),
            seg: plan.seg.to_cut(),
            max_fragment: plan.max_fragment,
            pace: Some(Pace::new(plan.gap_us, plan.stall_at, stall_us)),
        };
        let rng = Rng::new(plan.seed ^ 0x77);
        tokio::spawn(async move {
            match crate::tls::tls_connect(conn.clone(), params, rng).await {
                Ok(tls) => {
                    {
                        let mut g = o.lock().unwrap();
                        g.tls_ok_at = Some(world::now_us());
                        g.hs_bytes = Some(conn.sent_by_peer());
                    }
                    probe(tls, &o).await;
                }
                Err(e) => o.lock().unwrap().tls_error = Some(e),
            }
            o.lock().unwrap().done_at = Some(world::now_us());
        })
    };
    let mut other_tasks = Vec::new();
    let mut other_obs = Vec::new();
    for k in 0..plan.others {
        let o = Arc::new(std::sync::Mutex::new(ClientObs::default()));
        other_obs.push(o.clone());
        let sni = sni.clone();
        let alpn = alpn.clone();
        let listen = cfg.listen;
        let seed = plan.seed;
        let delay = (k as u64 + 1) * t_us / 7;
        other_tasks.push(tokio::spawn(async move {
            sleep_us(delay).await;
            let params = TlsParams { sni: Some(sni), alpn, seg: world::Cut::All, max_fragment: None, pace: None };
            let client = format!("203.0.113.{}:42000", 20 + k).parse().unwrap();
            match patht::connect_tls(listen, client, params, Rng::new(seed ^ k as u64)).await {
                Ok((tls, c)) => {
                    o.lock().unwrap().tls_ok_at = Some(world::now_us());
                    probe(tls, &o).await;
                    c.reset();
                }
                Err(e) => o.lock().unwrap().tls_error = Some(e),
            }
            o.lock().unwrap().done_at = Some(world::now_us());
        }));
    }

    // the stalled client's move when its stall ends
    let deadline = obs.t0 + 3 * t_us + 2_000_000;
    let mut acted = false;
    loop {
        if main.is_finished() {
            break;
        }
        let now = world::now_us();
        if now >= deadline {
            break;
        }
        if obs.stall_started_at.is_none() {
            if let Some(at) = plan.stall_at {
                if conn.sent_by_peer() == at && conn.unread_by_endpoint() == 0 && main_obs.lock().unwrap().tls_ok_at.is_none() {
                    // the pace layer notes the stall in the trace; here it is only timed
                    obs.stall_started_at = world::stall_noted_at();
                }
            }
        }
        if let (Some(s), false) = (obs.stall_started_at, acted) {
            if plan.after_stall != 0 && stall_us != u64::MAX && now >= s + stall_us {
                acted = true;
                if plan.after_stall == 1 {
                    conn.shutdown_write();
                } else {
                    conn.reset();
                }
            }
        }
        if conn.endpoint_closed_at().is_some() && obs.closed_at.is_none() {
            obs.closed_at = conn.endpoint_closed_at();
        }
        sleep_us((t_us / 200).max(500)).await;
    }
    obs.stall_started_at = obs.stall_started_at.or_else(world::stall_noted_at);
    obs.closed_at = conn.endpoint_closed_at();
    obs.sent_total = conn.sent_by_peer();
    main.abort();
    let _ = main.await;
    for t in other_tasks {
        let _ = tokio::time::timeout(Duration::from_micros(4 * t_us), t).await;
    }
    obs.main = main_obs.lock().unwrap().clone();
    obs.others = other_obs.iter().map(|o| o.lock().unwrap().clone()).collect();
    // everything the clients held is gone; give the endpoint a moment to notice
    conn.reset();
    sleep_us(200_000).await;
    obs.closed_at = obs.closed_at.or(conn.endpoint_closed_at());
    obs.end = world::now_us();
    obs.census_end = world::with(|w| w.census.clone());
    obs.tasks_end = metrics.num_alive_tasks();
    obs.listen_ended = listening.task.is_finished();
    listening.task.abort();
    obs
}

fn hs_judge(plan: &HPlan, o: &HObs, out: &mut Outcome) {
    if let Some(e) = &o.setup_error {
        out.violate("HARNESS", "handshake-setup", e.clone());
        return;
    }
    if o.listen_ended {
        out.violate("C09", "handshake:listen-returned", "Core::listen() returned".to_string());
    }
    let t_us = plan.timeout_ms * 1000;
    let eps = 3_000;
    let stall_us = if plan.stall_pct == 0 { u64::MAX } else { t_us * plan.stall_pct / 100 };
    // did the stall fall into the handshake?
    let stalled_in_hs = match (o.stall_started_at, o.main.hs_bytes, plan.stall_at) {
        (Some(_), Some(h), Some(at)) => at < h,
        (Some(_), None, Some(_)) => true,
        _ => false,
    };
    let class = if plan.dribble {
        "dribble"
    } else if plan.stall_at.is_none() || o.stall_started_at.is_none() {
        "no-stall"
    } else if !stalled_in_hs {
        "stall-after-handshake"
    } else if stall_us == u64::MAX {
        "stall-for-good"
    } else if plan.stall_pct <= 80 {
        "stall-short"
    } else if plan.stall_pct >= 125 {
        "stall-long"
    } else {
        "stall-near-limit"
    };
    out.cell(format!(
        "hs:{}:{}:{}:T{}",
        class,
        if plan.max_fragment.is_some() { "fragmented" } else { "whole" },
        match plan.after_stall {
            0 => "continue",
            1 => "fin",
            _ => "rst",
        },
        plan.timeout_ms
    ));
    out.nontrivial = true;
    world::count("hs_judged");

    // bystanders are never affected
    for (k, c) in o.others.iter().enumerate() {
        if c.status != Some(200) {
            out.violate(
                "C12",
                "hs:bystander-not-served",
                format!("concurrent client {} was not served: {:?}", k, c),
            );
        }
    }
    // whatever happened, nothing of the connection stays behind
    if o.census_end.tcp_in_open != 0 {
        out.violate(
            "C14",
            format!("hs:{}:socket-not-released", class),
            format!("{} inbound sockets still open after every client was gone ({:?})", o.census_end.tcp_in_open, o.census_end),
        );
    }
    if o.tasks_end > o.tasks_before {
        out.violate(
            "C14",
            format!("hs:{}:tasks-not-released", class),
            format!("{} tasks alive before the connection, {} after every client was gone", o.tasks_before, o.tasks_end),
        );
    }

    let gaps = plan.gap_us * 12;
    match class {
        "no-stall" | "stall-short" | "stall-after-handshake" => {
            let cont = plan.after_stall == 0 || class == "no-stall";
            if !cont {
                return; // the client gave up itself
            }
            if class == "stall-after-handshake" && (stall_us == u64::MAX || stall_us > 60_000_000) {
                return;
            }
            if o.main.tls_ok_at.is_none() {
                let (p, k) = if class == "no-stall" { ("C12", "hs:handshake-failed") } else { ("C14", "hs:slow-handshake-dropped") };
                out.violate(
                    p,
                    format!("{}:{}", k, if plan.max_fragment.is_some() { "fragmented" } else { "whole" }),
                    format!(
                        "client (seg {:?}, fragment {:?}, endpoint reads {:?}, stall {:?} for {} % of T) did not complete its handshake: {:?}, endpoint closed at {:?} (t0 {})",
                        plan.seg, plan.max_fragment, plan.ep_read, plan.stall_at, plan.stall_pct, o.main.tls_error, o.closed_at, o.t0
                    ),
                );
            } else if o.main.status != Some(200) {
                out.violate(
                    "C12",
                    "hs:request-after-handshake-failed",
                    format!("handshake completed, the request did not: {:?}", o.main),
                );
            }
        }
        "dribble" => {
            // a ClientHello of 200+ bytes in pieces of at most 8, T/15 apart, is not complete
            // before 1.6 T: the handshake does not complete within its time-out, whatever the gaps
            match o.closed_at {
                None => out.violate("C14", "hs:dribbled:not-dropped", format!("a client dribbling its ClientHello ({:?} bytes every {} us) was still connected {} us after accept, time-out {} us", plan.seg, plan.gap_us, o.end - o.t0, t_us)),
                Some(c) => {
                    if c + eps < o.t0 + t_us {
                        out.violate("C14", "hs:dribbled:dropped-early", format!("dropped {} us after accept, time-out {} us", c - o.t0, t_us));
                    }
                    if c > o.t0 + t_us + plan.gap_us + eps {
                        out.violate("C14", "hs:dribbled:dropped-late", format!("dropped {} us after accept, time-out {} us, pieces {} us apart", c - o.t0, t_us, plan.gap_us));
                    }
                }
            }
            if o.main.tls_ok_at.is_some() {
                out.violate("C14", "hs:dribbled:served-after-timeout", format!("a handshake that took {:?} us was completed (time-out {} us)", o.main.tls_ok_at.map(|t| t - o.t0), t_us));
            }
        }
        "stall-long" | "stall-for-good" => {
            let s = o.stall_started_at.unwrap_or(o.t0);
            // when the client itself ends the connection after the stall, closing then is fine too
            match o.closed_at {
                None => out.violate("C14", "hs:stalled:not-dropped", format!("a handshake stalled at byte {:?} was still open {} us later", plan.stall_at, o.end - o.t0)),
                Some(c) => {
                    if c + eps < o.t0 + t_us {
                        out.violate(
                            "C14",
                            "hs:stalled:dropped-early",
                            format!("dropped {} us after accept, time-out {} us", c - o.t0, t_us),
                        );
                    }
                    if c > s + t_us + gaps + eps {
                        out.violate(
                            "C14",
                            "hs:stalled:dropped-late",
                            format!("stall began {} us after accept, dropped {} us after accept, time-out {} us", s - o.t0, c - o.t0, t_us),
                        );
                    }
                }
            }
            if o.main.tls_ok_at.is_some() && o.main.status == Some(200) && plan.after_stall == 0 && stall_us != u64::MAX {
                out.violate(
                    "C14",
                    "hs:stalled:served-after-timeout",
                    format!("a handshake that stalled for {} % of its time-out was completed and served", plan.stall_pct),
                );
            }
        }
        _ => {}
    }
}

// =======================================================================================
// clienthello
// =======================================================================================

pub struct ClientHello;

#[derive(Clone, Debug, Serialize, Deserialize)]
pub enum Mutation {
    Xor { off: usize, mask: u8 },
    Truncate { len: usize },
    RecordLen { delta: i32 },
    HsLen { delta: i32 },
    Append { n: usize },
    /// a record of this content type and length in front of the hello
    Prepend { ty: u8, len: usize },
}

#[derive(Clone, Debug, Serialize, Deserialize)]
pub struct CPlan {
    pub seed: u64,
    /// None: the hello comes from rustls (sni, alpn, max_fragment below), entropy-dependent
    /// fields overwritten from the plan
    pub built: Option<HelloSpec>,
    pub random: Vec<u8>,
    pub sni: Option<String>,
    pub alpn: Vec<String>,
    pub max_fragment: Option<usize>,
    pub mutations: Vec<Mutation>,
    pub cuts: Vec<usize>,
    /// 0 = cuts as given, 1 = byte at a time, 2 = random pieces
    pub delivery: u8,
    pub gap_us: u64,
    pub fin_after_us: Option<u64>,
    pub ep_read: CutP,
    pub ep_spurious: u64,
    pub read_err_at: Option<u64>,
    /// minor version written into every record header of the flight (0 = as built: 3.1 from
    /// rustls, 3.3 from the builder); 3.0 to 3.3 are all legitimate there (RFC 5246 E.1) and
    /// say nothing about the hello inside
    #[serde(default)]
    pub record_minor: Option<u8>,
}

impl Scenario for ClientHello {
    fn name(&self) -> &'static str {
        "clienthello"
    }

    fn budget(&self, tier: Tier) -> u64 {
        match tier {
            Tier::Quick => 200_000,
            Tier::Thorough => 20_000_000,
        }
    }

    fn generate(&self, seed: u64, index: u64, _tier: Tier) -> Value {
        let mut rng = Rng::new(seed).fork(&format!("clienthello{}", index));
        let random = rng.bytes(32);
        let sni = if rng.chance(1, 10) { None } else { Some((*rng.pick(&["vpn.example", "a.b.c.d.example.org", "x.test"])).to_string()) };
        let alpn: Vec<String> = match rng.below(4) {
            0 => vec![],
            1 => vec!["h2".into()],
            2 => vec!["http/1.1".into()],
            _ => vec!["h2".into(), "http/1.1".into()],
        };
        let built = if rng.chance(1, 2) {
            let fragment = rng.chance(1, 4);
            Some(HelloSpec {
                random: random.clone(),
                session_id_len: *rng.pick(&[0usize, 32]),
                sni: sni.clone(),
                alpn: alpn.clone(),
                big_share: match rng.below(6) {
                    0 => 1216,
                    1 => rng.size(1, 5_000) as usize,
                    2 => 1568 + 1216,
                    _ => 0,
                },
                padding: match rng.below(6) {
                    0 => rng.usize_below(512),
                    1 => rng.size(1, 14_000) as usize,
                    _ => 0,
                },
                record_limit: if fragment { 64 + rng.usize_below(1200) } else { 0 },
                extra_suites: rng.usize_below(40),
            })
        } else {
            None
        };
        let mut mutations = Vec::new();
        if rng.chance(1, 3) {
            for _ in 0..1 + rng.usize_below(2) {
                mutations.push(match rng.below(9) {
                    0 | 1 => Mutation::Xor { off: rng.usize_below(12), mask: 1 << rng.below(8) },
                    2 => Mutation::Xor { off: rng.usize_below(600), mask: 1 + rng.below(255) as u8 },
                    3 => Mutation::Truncate { len: rng.usize_below(300) },
                    4 => Mutation::RecordLen { delta: *rng.pick(&[-1i32, 1, -40, 40, 300, 20_000]) },
                    5 => Mutation::HsLen { delta: *rng.pick(&[-1i32, 1, -40, 40, 300, 70_000]) },
                    6 => Mutation::Append { n: rng.size(1, 4_000) as usize },
                    7 => Mutation::Prepend { ty: *rng.pick(&[0x14u8, 0x15, 0x16, 0x17, 0x18]), len: rng.usize_below(40) },
                    _ => Mutation::Xor { off: 11 + rng.usize_below(32), mask: 1 << rng.below(8) },
                });
            }
        }
        let plan = CPlan {
            seed: rng.next_u64(),
            built,
            random,
            sni,
            alpn,
            max_fragment: match rng.below(6) {
                0 => Some(32 + rng.usize_below(64)),
                1 => Some(rng.size(96, 700) as usize),
                _ => None,
            },
            mutations,
            cuts: (0..rng.usize_below(4)).map(|_| rng.size(1, 2_000) as usize).collect(),
            delivery: match rng.below(8) {
                0 => 1,
                1 | 2 => 2,
                _ => 0,
            },
            gap_us: if rng.chance(1, 2) { 0 } else { rng.size(1, 50_000) },
            fin_after_us: if rng.chance(1, 3) { Some(rng.size(1, 2_000_000)) } else { None },
            ep_read: CutP::draw(&mut rng, 1500),
            ep_spurious: if rng.chance(1, 3) { 2 + rng.below(5) } else { 0 },
            read_err_at: if rng.chance(1, 12) { Some(rng.below(600)) } else { None },
            record_minor: if rng.chance(1, 4) { Some(rng.below(4) as u8) } else { None },
        };
        to_plan(&plan)
    }

    fn execute(&self, plan: &Value) -> Outcome {
        let plan: CPlan = match from_plan(plan) {
            Ok(p) => p,
            Err(e) => return harness_error(e),
        };
        let p2 = plan.clone();
        let (obs, rep) = sim::run(plan.seed, Duration::from_secs(3600), move || ch_run(p2));
        let mut out = Outcome::default();
        match obs {
            Some(obs) => ch_judge(&plan, &obs, &mut out),
            None => {
                if !rep.main_panicked {
                    out.inconclusive = true;
                }
            }
        }
        sim::finish(out, &rep)
    }
}

#[derive(Debug, Default, Clone)]
pub struct CObs {
    pub setup_error: Option<String>,
    pub wire: Vec<u8>,
    /// Ok((random, sni, alpn)) / Err(text) / None: still waiting when the observation ended
    pub result: Option<Result<(Option<Vec<u8>>, Option<String>, Vec<Vec<u8>>), String>>,
    pub all_written: bool,
    pub read_by_endpoint: u64,
    pub fault_fired: bool,
}

/// The ClientHello rustls produces for these parameters, every entropy-dependent field
/// (random, session id, key shares) overwritten deterministically
fn rustls_hello(plan: &CPlan) -> Result<Vec<u8>, String> {
    use rustls::{ClientConfig, ClientConnection, ServerName};
    struct NoVerify;
    impl rustls::client::ServerCertVerifier for NoVerify {
        fn verify_server_cert(
            &self,
            _: &rustls::Certificate,
            _: &[rustls::Certificate],
            _: &ServerName,
            _: &mut dyn Iterator<Item = &[u8]>,
            _: &[u8],
            _: std::time::SystemTime,
        ) -> Result<rustls::client::ServerCertVerified, rustls::Error> {
            Ok(rustls::client::ServerCertVerified::assertion())
        }
    }
    let mut cfg = ClientConfig::builder()
        .with_safe_defaults()
        .with_custom_certificate_verifier(Arc::new(NoVerify))
        .with_no_client_auth();
    cfg.alpn_protocols = plan.alpn.iter().map(|a| a.as_bytes().to_vec()).collect();
    cfg.enable_sni = plan.sni.is_some();
    cfg.max_fragment_size = plan.max_fragment;
    let name = match &plan.sni {
        Some(s) => ServerName::try_from(s.as_str()).map_err(|e| e.to_string())?,
        None => ServerName::IpAddress("198.51.100.1".parse().unwrap()),
    };
    let mut c = ClientConnection::new(Arc::new(cfg), name).map_err(|e| e.to_string())?;
    let mut wire = Vec::new();
    while c.wants_write() {
        c.write_tls(&mut wire).map_err(|e| e.to_string())?;
    }
    // locate the handshake bytes inside the records
    let mut pos = 0;
    let mut map = Vec::new(); // handshake offset -> wire offset
    while pos + 5 <= wire.len() {
        let len = u16::from_be_bytes([wire[pos + 3], wire[pos + 4]]) as usize;
        for i in 0..len {
            map.push(pos + 5 + i);
        }
        pos += 5 + len;
    }
    let hs: Vec<u8> = map.iter().map(|&i| wire[i]).collect();
    let mut fill = Rng::new(plan.seed ^ 0xe17);
    let mut set = |range: std::ops::Range<usize>, src: Option<&[u8]>, wire: &mut Vec<u8>| {
        for (k, h) in range.enumerate() {
            if let Some(&w) = map.get(h) {
                wire[w] = match src {
                    Some(s) => s[k],
                    None => fill.below(256) as u8,
                };
            }
        }
    };
    if hs.len() < 39 {
        return Err("short hello".into());
    }
    set(6..38, Some(&plan.random), &mut wire);
    let sid_len = hs[38] as usize;
    set(39..39 + sid_len, None, &mut wire);
    let mut p = 39 + sid_len;
    let cs_len = u16::from_be_bytes([hs[p], hs[p + 1]]) as usize;
    p += 2 + cs_len;
    let comp = hs[p] as usize;
    p += 1 + comp;
    let ext_total = u16::from_be_bytes([hs[p], hs[p + 1]]) as usize;
    p += 2;
    let end = (p + ext_total).min(hs.len());
    while p + 4 <= end {
        let ty = u16::from_be_bytes([hs[p], hs[p + 1]]);
        let len = u16::from_be_bytes([hs[p + 2], hs[p + 3]]) as usize;
        if ty == 0x0033 {
            // client_shares: u16 total, then (group u16, len u16, key)*
            let mut q = p + 6;
            while q + 4 <= p + 4 + len {
                let klen = u16::from_be_bytes([hs[q + 2], hs[q + 3]]) as usize;
                set(q + 4..q + 4 + klen, None, &mut wire);
                q += 4 + klen;
            }
        }
        p += 4 + len;
    }
    Ok(wire)
}

fn mutate(wire: &mut Vec<u8>, m: &Mutation) {
    match m {
        Mutation::Xor { off, mask } => {
            if let Some(b) = wire.get_mut(*off) {
                *b ^= mask;
            }
        }
        Mutation::Truncate { len } => wire.truncate(*len),
        Mutation::RecordLen { delta } => {
            if wire.len() >= 5 {
                let v = (u16::from_be_bytes([wire[3], wire[4]]) as i32 + delta).clamp(0, 65_535) as u16;
                wire[3..5].copy_from_slice(&v.to_be_bytes());
            }
        }
        Mutation::HsLen { delta } => {
            if wire.len() >= 9 {
                let v = (u32::from_be_bytes([0, wire[6], wire[7], wire[8]]) as i32 + delta).clamp(0, 0xff_ffff) as u32;
                wire[6..9].copy_from_slice(&v.to_be_bytes()[1..]);
            }
        }
        Mutation::Append { n } => wire.extend((0..*n).map(|i| (i * 7 + 3) as u8)),
        Mutation::Prepend { ty, len } => {
            let mut r = vec![*ty, 0x03, 0x03];
            r.extend_from_slice(&(*len as u16).to_be_bytes());
            r.extend((0..*len).map(|i| (i as u8) ^ 0x5a));
            r.extend_from_slice(wire);
            *wire = r;
        }
    }
}

async fn ch_run(plan: CPlan) -> CObs {
    let mut obs = CObs::default();
    let mut wire = match &plan.built {
        Some(spec) => build_hello(spec),
        None => match rustls_hello(&plan) {
            Ok(w) => w,
            Err(e) => {
                obs.setup_error = Some(e);
                return obs;
            }
        },
    };
    if let Some(minor) = plan.record_minor {
        let mut pos = 0;
        while pos + 5 <= wire.len() && wire[pos] == 0x16 {
            wire[pos + 2] = minor;
            pos += 5 + u16::from_be_bytes([wire[pos + 3], wire[pos + 4]]) as usize;
        }
    }
    for m in &plan.mutations {
        mutate(&mut wire, m);
    }
    obs.wire = wire.clone();
    let faults = EpFaults {
        read_cut: plan.ep_read.to_cut(),
        spurious_pending: plan.ep_spurious,
        read_err_at: plan.read_err_at.map(|o| (o, ErrorKind::ConnectionReset)),
        ..EpFaults::default()
    };
    let (stream, conn) = world::client_conn("203.0.113.9:41000".parse().unwrap(), 64 * 1024, 64 * 1024, faults);
    let door = tokio::spawn(async move { trusttunnel::verif::door::tls_peek(stream).await.map_err(|e| e.to_string()) });
    let cuts: Vec<usize> = match plan.delivery {
        1 => (1..wire.len()).collect(),
        2 => {
            let mut r = Rng::new(plan.seed ^ 0x9);
            let mut v = Vec::new();
            let mut at = 0;
            while at < wire.len() {
                at += r.size(1, 700) as usize;
                v.push(at);
            }
            v
        }
        _ => plan.cuts.clone(),
    };
    let gaps: Vec<u64> = cuts.iter().map(|_| plan.gap_us).collect();
    let byte_gap = if plan.delivery == 1 { plan.gap_us.min(200) } else { plan.gap_us };
    let gaps: Vec<u64> = gaps.iter().map(|_| byte_gap).collect();
    let writer = {
        let conn = conn.clone();
        let wire = wire.clone();
        let fin = plan.fin_after_us;
        tokio::spawn(async move {
            let r = write_pieces(&conn, &wire, &cuts, &gaps).await;
            if let Some(us) = fin {
                sleep_us(us).await;
                conn.shutdown_write();
            }
            r.is_ok()
        })
    };
    let res = tokio::time::timeout(Duration::from_secs(120), door).await;
    obs.result = match res {
        Ok(Ok(r)) => Some(r),
        Ok(Err(e)) => Some(Err(format!("door task: {}", e))),
        Err(_) => None,
    };
    obs.all_written = if writer.is_finished() { writer.await.unwrap_or(false) } else { writer.abort(); false };
    obs.read_by_endpoint = conn.totals().1;
    obs.fault_fired = conn.faults_fired() != 0;
    conn.reset();
    sleep_us(1000).await;
    obs
}

/// Reference reading of the first flight: (random, sni, alpn) of a well-formed ClientHello
/// whose handshake message may span several records
struct RefHello {
    random: Vec<u8>,
    in_first_record: bool,
}

fn reference_read(wire: &[u8]) -> Option<RefHello> {
    let mut pos = 0;
    let mut hs = Vec::new();
    let mut first_len = None;
    while pos + 5 <= wire.len() {
        if wire[pos] != 0x16 {
            break;
        }
        let len = u16::from_be_bytes([wire[pos + 3], wire[pos + 4]]) as usize;
        if pos + 5 + len > wire.len() {
            break;
        }
        if first_len.is_none() {
            first_len = Some(len);
        }
        hs.extend_from_slice(&wire[pos + 5..pos + 5 + len]);
        pos += 5 + len;
    }
    if hs.len() < 38 || hs[0] != 1 {
        return None;
    }
    let hs_len = u32::from_be_bytes([0, hs[1], hs[2], hs[3]]) as usize;
    if hs.len() < 4 + hs_len {
        return None;
    }
    let first = first_len?;
    Some(RefHello {
        random: hs[6..38].to_vec(),
        // the listener looks at no more than 16 KiB; a record ending exactly there is left open
        in_first_record: 4 + hs_len <= first && first + 5 < 16 * 1024,
    })
}

fn ch_judge(plan: &CPlan, o: &CObs, out: &mut Outcome) {
    if let Some(e) = &o.setup_error {
        out.violate("HARNESS", "clienthello-setup", e.clone());
        return;
    }
    let pristine = plan.mutations.is_empty();
    let source = if plan.built.is_some() { "built" } else { "rustls" };
    let reference = reference_read(&o.wire);
    let shape = match &reference {
        Some(r) if r.in_first_record => "one-record",
        Some(_) => "several-records",
        None => "not-a-hello",
    };
    out.cell(format!(
        "ch:{}:{}:{}:{}",
        source,
        if pristine { "pristine" } else { "mutated" },
        shape,
        match plan.delivery {
            0 => format!("{}cuts", plan.cuts.len()),
            1 => "bytewise".into(),
            _ => "pieces".into(),
        }
    ));
    out.nontrivial = true;
    let faulted = o.fault_fired;
    // never some other value
    if let Some(Ok((Some(r), _, _))) = &o.result {
        let ok = match &reference {
            Some(x) => *r == x.random,
            None => o.wire.len() >= 43 && o.wire[0] == 0x16 && o.wire[5] == 1 && *r == o.wire[11..43],
        };
        if !ok {
            out.violate(
                "C12",
                format!("ch:{}:wrong-random", source),
                format!(
                    "extracted {:02x?}, the bytes sent hold {:02x?} ({} bytes, mutations {:?}, cuts {:?})",
                    &r[..r.len().min(8)],
                    o.wire.get(11..19),
                    o.wire.len(),
                    plan.mutations,
                    plan.cuts
                ),
            );
        }
        if r.len() != 32 {
            out.violate("C12", "ch:random-length", format!("{} bytes", r.len()));
        }
    }
    if !pristine || faulted {
        return;
    }
    // an unmodified hello, delivered completely: the listener must come to the same reading
    let reference = match reference {
        Some(r) => r,
        None => {
            out.violate("HARNESS", "clienthello-reference", "the reference cannot read a pristine hello".to_string());
            return;
        }
    };
    match &o.result {
        None => {
            if o.all_written {
                out.violate(
                    "C12",
                    format!("ch:{}:{}:never-returned", source, shape),
                    format!("all {} bytes were delivered (endpoint read {}), the listener was still waiting 120 s later", o.wire.len(), o.read_by_endpoint),
                );
            }
        }
        Some(Err(e)) => out.violate(
            "C12",
            format!("ch:{}:{}:handshake-bytes-damaged", source, shape),
            format!("a valid ClientHello of {} bytes ({:?}) was refused after the peek: {}", o.wire.len(), plan.built.as_ref().map(|b| (b.big_share, b.padding, b.record_limit)), e),
        ),
        Some(Ok((random, sni, alpn))) => {
            if reference.in_first_record && random.as_deref() != Some(&reference.random[..]) {
                out.violate(
                    "C12",
                    format!("ch:{}:random-not-extracted", source),
                    format!("hello of {} bytes in one record, cuts {:?}, delivery {}: got {:?}", o.wire.len(), plan.cuts, plan.delivery, random.as_ref().map(|r| r.len())),
                );
            }
            if random.is_none() {
                world::count("ch_random_absent");
            }
            let alpn_s: Vec<String> = alpn.iter().map(|a| String::from_utf8_lossy(a).into_owned()).collect();
            if *sni != plan.sni || alpn_s != plan.alpn {
                out.violate(
                    "C12",
                    format!("ch:{}:{}:replayed-bytes-differ", source, shape),
                    format!("sent sni {:?} alpn {:?}, the TLS stack saw sni {:?} alpn {:?}", plan.sni, plan.alpn, sni, alpn_s),
                );
            }
        }
    }
    let _ = Bytes::new();
    let _ = PeerRead::Eof;
}
