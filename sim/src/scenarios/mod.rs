pub mod forward;
pub mod h1;
pub mod relay;
pub mod requests;
pub mod services;
pub mod timeouts;

use crate::scenario::Scenario;

static AUTH: requests::Requests = requests::Requests { focus: requests::Focus::Auth };
static RESPONSES: requests::Requests = requests::Requests { focus: requests::Focus::Responses };
static EGRESS: requests::Requests = requests::Requests { focus: requests::Focus::Egress };

pub fn all() -> Vec<&'static dyn Scenario> {
    vec![&relay::Relay, &AUTH, &RESPONSES, &EGRESS, &h1::H1, &timeouts::Timeouts, &forward::Forward, &services::Services]
}

pub fn by_name(name: &str) -> Option<&'static dyn Scenario> {
    all().into_iter().find(|s| s.name() == name)
}
