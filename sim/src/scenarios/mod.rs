pub mod relay;

use crate::scenario::Scenario;

pub fn all() -> Vec<&'static dyn Scenario> {
    vec![&relay::Relay]
}

pub fn by_name(name: &str) -> Option<&'static dyn Scenario> {
    all().into_iter().find(|s| s.name() == name)
}
