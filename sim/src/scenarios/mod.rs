pub mod byzantine;
pub mod demux;
pub mod forward;
pub mod h1;
pub mod handshake;
pub mod icmp;
pub mod metrics;
pub mod relay;
pub mod requests;
pub mod rules;
pub mod services;
pub mod shutdown;
pub mod socks;
pub mod timeouts;
pub mod udp;

use crate::scenario::Scenario;

static AUTH: requests::Requests = requests::Requests { focus: requests::Focus::Auth };
static RESPONSES: requests::Requests = requests::Requests { focus: requests::Focus::Responses };
static EGRESS: requests::Requests = requests::Requests { focus: requests::Focus::Egress };

/// The same scenario with every `log::Record` captured at trace level and searched for the
/// canaries the scenario planted (C20)
pub struct WithLogs {
    pub inner: &'static dyn Scenario,
    pub name: &'static str,
}

impl Scenario for WithLogs {
    fn name(&self) -> &'static str {
        self.name
    }
    fn generate(&self, seed: u64, index: u64, tier: crate::scenario::Tier) -> serde_json::Value {
        self.inner.generate(seed ^ 0x5ec, index, tier)
    }
    fn execute(&self, plan: &serde_json::Value) -> crate::sim::Outcome {
        crate::sim::set_logging(true, false);
        let o = self.inner.execute(plan);
        crate::sim::set_logging(false, false);
        o
    }
    fn budget(&self, tier: crate::scenario::Tier) -> u64 {
        (self.inner.budget(tier) / 8).max(500)
    }
}

static UDPCODEC: udp::Udp = udp::Udp { flows_mode: false };
static UDPFLOWS: udp::Udp = udp::Udp { flows_mode: true };
static L_AUTH: WithLogs = WithLogs { inner: &AUTH, name: "secrets-auth" };
static L_RESPONSES: WithLogs = WithLogs { inner: &RESPONSES, name: "secrets-responses" };
static L_FORWARD: WithLogs = WithLogs { inner: &forward::Forward, name: "secrets-forward" };
static L_SERVICES: WithLogs = WithLogs { inner: &services::Services, name: "secrets-services" };
static L_RELAY: WithLogs = WithLogs { inner: &relay::Relay, name: "secrets-relay" };
static L_H1: WithLogs = WithLogs { inner: &h1::H1, name: "secrets-h1" };
static L_DEMUX: WithLogs = WithLogs { inner: &demux::Demux, name: "secrets-demux" };
static L_SOCKS: WithLogs = WithLogs { inner: &socks::Socks, name: "secrets-socks" };

pub fn all() -> Vec<&'static dyn Scenario> {
    vec![&relay::Relay, &AUTH, &RESPONSES, &EGRESS, &h1::H1, &timeouts::Timeouts, &forward::Forward, &services::Services, &metrics::Metrics, &UDPCODEC, &UDPFLOWS, &socks::Socks, &rules::Rules, &demux::Demux, &handshake::Handshake, &handshake::ClientHello, &icmp::Icmp, &shutdown::ShutdownScn, &byzantine::Byzantine, &L_AUTH, &L_RESPONSES, &L_FORWARD, &L_SERVICES, &L_RELAY, &L_H1, &L_DEMUX, &L_SOCKS]
}

pub fn by_name(name: &str) -> Option<&'static dyn Scenario> {
    all().into_iter().find(|s| s.name() == name)
}
