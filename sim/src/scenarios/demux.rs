//! C05: SNI/ALPN demultiplexing and hot reload, observed through real TLS handshakes
//! (rustls client) against the real accept loop: which certificate is presented, which ALPN
//! is negotiated, and which channel answers a probe request. Histories interleave
//! connections with valid, invalid and storage-faulted reloads of the TLS host settings.

use crate::actors::*;
use crate::endpoint::{self, EpConfig, HostCfg};
use crate::patht;
use crate::prng::Rng;
use crate::scenario::*;
use crate::sim::{self, Outcome};
use crate::tls::TlsParams;
use crate::world::{self, Cut, HostPlan, PeerRead};
use serde::{Deserialize, Serialize};
use serde_json::Value;
use std::net::SocketAddr;
use std::sync::{Arc, Mutex};
use std::time::Duration;
use tokio::io::AsyncWriteExt;
use trusttunnel::authentication::{Authenticator, Source, Status};

pub struct Demux;

#[derive(Clone, Debug, Serialize, Deserialize, PartialEq)]
pub struct Hosts {
    pub main: Vec<HostCfg>,
    pub ping: Vec<HostCfg>,
    pub speed: Vec<HostCfg>,
    pub rp: Vec<HostCfg>,
}

#[derive(Clone, Debug, Serialize, Deserialize)]
pub enum DOp {
    Connect { sni: Option<String>, alpn: Vec<Vec<u8>>, stall_us: u64 },
    /// fault: 0 none, 1 certificate file missing, 2 certificate file is not PEM,
    /// 3 duplicate host name, 4 no main host
    Reload { hosts: Hosts, fault: u8 },
    Wait { us: u64 },
}

#[derive(Clone, Debug, Serialize, Deserialize)]
pub struct DPlan {
    pub seed: u64,
    pub h1: bool,
    pub h2: bool,
    pub quic: bool,
    pub rp_configured: bool,
    pub hosts: Hosts,
    pub ops: Vec<DOp>,
}

const LISTEN: &str = "198.51.100.1:443";
const NAMES: &[&str] = &[
    "vpn.example",
    "a.vpn.example",
    "b.a.vpn.example",
    "example",
    "b.example",
    "a.b.example",
    "ping.example",
    "speed.test",
    "a.speed.test",
    "rp.example",
];

fn origin() -> SocketAddr {
    "93.184.216.70:8080".parse().unwrap()
}

struct SniOk {
    inner: Arc<dyn Authenticator>,
}

impl Authenticator for SniOk {
    fn authenticate(&self, s: &Source<'_>, id: &trusttunnel::log_utils::IdChain<u64>) -> Status {
        match s {
            Source::Sni(_) => Status::Pass,
            x => self.inner.authenticate(x, id),
        }
    }
}

fn draw_hosts(rng: &mut Rng, cert_base: usize) -> Hosts {
    let mut names: Vec<&str> = NAMES.to_vec();
    // shuffle
    for i in (1..names.len()).rev() {
        names.swap(i, rng.usize_below(i + 1));
    }
    let mut it = names.into_iter();
    let mut cert = cert_base;
    let mut mk = |n: usize, rng: &mut Rng, alt: bool, it: &mut dyn Iterator<Item = &'static str>| -> Vec<HostCfg> {
        (0..n)
            .filter_map(|_| {
                let name = it.next()?;
                let c = cert % endpoint::N_CERTS;
                cert += 1;
                Some(HostCfg {
                    hostname: name.to_string(),
                    cert: c,
                    allowed_sni: if alt && rng.chance(1, 3) {
                        // now and then a bare name of which another host's alternative is a
                        // one-label extension (alt0.cdn.test next to cdn.test)
                        if rng.chance(1, 4) {
                            vec![(*rng.pick(&["cdn.test", "front.example"])).to_string()]
                        } else {
                            vec![format!("alt{}.{}", rng.below(3), *rng.pick(&["cdn.test", "vpn.example", "example", "front.example"]))]
                        }
                    } else {
                        vec![]
                    },
                })
            })
            .collect()
    };
    let n_main = 1 + rng.usize_below(2);
    let main = mk(n_main, rng, true, &mut it);
    let n_ping = rng.usize_below(2);
    let ping = mk(n_ping, rng, false, &mut it);
    let n_speed = rng.usize_below(2);
    let speed = mk(n_speed, rng, false, &mut it);
    let n_rp = rng.usize_below(2);
    let rp = mk(n_rp, rng, false, &mut it);
    Hosts { main, ping, speed, rp }
}

/// A reload that changes one thing only: the alternative names of one host (certificate
/// untouched), the certificate of one host, the class of one host, or one host more or less
fn edit_hosts(rng: &mut Rng, cur: &Hosts, cert_base: usize) -> Hosts {
    let mut h = cur.clone();
    match rng.below(6) {
        0 | 1 => {
            let i = rng.usize_below(h.main.len());
            let fresh = format!("alt{}.{}", rng.below(3), *rng.pick(&["cdn.test", "vpn.example", "example"]));
            match rng.below(3) {
                0 => h.main[i].allowed_sni.clear(),
                1 => h.main[i].allowed_sni = vec![fresh],
                _ => {
                    if !h.main[i].allowed_sni.contains(&fresh) {
                        h.main[i].allowed_sni.push(fresh);
                    }
                }
            }
        }
        2 => {
            // the alternative names change hands
            if h.main.len() >= 2 {
                let a = h.main[0].allowed_sni.clone();
                h.main[0].allowed_sni = h.main[1].allowed_sni.clone();
                h.main[1].allowed_sni = a;
            } else {
                h.main[0].allowed_sni.clear();
            }
        }
        3 => {
            let n = h.main.len() + h.ping.len() + h.speed.len() + h.rp.len();
            let k = rng.usize_below(n);
            let c = cert_base % endpoint::N_CERTS;
            if let Some(x) = h.main.iter_mut().chain(h.ping.iter_mut()).chain(h.speed.iter_mut()).chain(h.rp.iter_mut()).nth(k) {
                x.cert = c;
            }
        }
        4 => {
            // one host changes class, name and certificate kept
            if h.main.len() >= 2 && rng.chance(1, 2) {
                let mut x = h.main.pop().unwrap();
                x.allowed_sni.clear();
                match rng.below(3) {
                    0 => h.ping.push(x),
                    1 => h.speed.push(x),
                    _ => h.rp.push(x),
                }
            } else if let Some(x) = h.ping.pop().or_else(|| h.speed.pop()).or_else(|| h.rp.pop()) {
                h.main.push(x);
            }
        }
        _ => {
            if !h.ping.is_empty() && rng.chance(1, 2) {
                h.ping.pop();
            } else if !h.rp.is_empty() && rng.chance(1, 2) {
                h.rp.pop();
            } else {
                let used: Vec<&str> = h.main.iter().chain(&h.ping).chain(&h.speed).chain(&h.rp).map(|x| x.hostname.as_str()).collect();
                if let Some(name) = NAMES.iter().find(|n| !used.contains(*n)) {
                    let x = HostCfg { hostname: name.to_string(), cert: cert_base % endpoint::N_CERTS, allowed_sni: vec![] };
                    if h.ping.is_empty() { h.ping.push(x) } else { h.speed.push(x) }
                }
            }
        }
    }
    h
}

fn draw_alpn(rng: &mut Rng) -> Vec<Vec<u8>> {
    let pool: [&[u8]; 6] = [b"h3", b"h2", b"http/1.1", b"spdy/3", &[0xff, 0xfe, 0x80], b"h2c"];
    match rng.below(8) {
        0 => vec![],
        1 => vec![b"h2".to_vec()],
        2 => vec![b"http/1.1".to_vec()],
        3 => vec![b"h2".to_vec(), b"http/1.1".to_vec()],
        _ => {
            let n = 1 + rng.usize_below(4);
            let mut v: Vec<Vec<u8>> = Vec::new();
            for _ in 0..n {
                let a = rng.pick(&pool).to_vec();
                if !v.contains(&a) {
                    v.push(a);
                }
            }
            v
        }
    }
}

fn draw_sni(rng: &mut Rng, hosts: &[&Hosts]) -> Option<String> {
    let h = *rng.pick(hosts);
    let all: Vec<&HostCfg> = h.main.iter().chain(&h.ping).chain(&h.speed).chain(&h.rp).collect();
    match rng.below(10) {
        0 => None,
        1 => Some("unknown.test".into()),
        2 => Some(format!("creds-canary-{}.{}", rng.below(5), rng.pick(&h.main).hostname)),
        3 => {
            // the credentials form belongs to host names only: in front of an alternative SNI
            // (or of a service host's name) it designates nothing
            let alts: Vec<&String> = h.main.iter().flat_map(|m| m.allowed_sni.iter()).collect();
            match (rng.below(3), alts.is_empty()) {
                (0, false) => Some(format!("creds-canary-{}.{}", rng.below(5), rng.pick(&alts))),
                (1, _) if all.len() > h.main.len() => Some(format!("creds-canary-{}.{}", rng.below(5), rng.pick(&all[h.main.len()..]).hostname)),
                _ => Some(format!("creds-canary-{}.{}", rng.below(5), rng.pick(&h.main).hostname)),
            }
        }
        4 => {
            let alts: Vec<&String> = h.main.iter().flat_map(|m| m.allowed_sni.iter()).collect();
            if alts.is_empty() { Some(rng.pick(&all).hostname.clone()) } else { Some((*rng.pick(&alts)).clone()) }
        }
        5 => Some((*rng.pick(NAMES)).to_string()),
        _ => Some(rng.pick(&all).hostname.clone()),
    }
}

impl Scenario for Demux {
    fn name(&self) -> &'static str {
        "demux"
    }

    fn budget(&self, tier: Tier) -> u64 {
        match tier {
            Tier::Quick => 20_000,
            Tier::Thorough => 1_000_000,
        }
    }

    fn generate(&self, seed: u64, index: u64, _tier: Tier) -> Value {
        let mut rng = Rng::new(seed).fork(&format!("demux{}", index));
        let (h1, h2) = match rng.below(5) {
            0 => (true, false),
            1 => (false, true),
            _ => (true, true),
        };
        let hosts = draw_hosts(&mut rng, 0);
        let mut current = hosts.clone();
        let mut history: Vec<Hosts> = Vec::new();
        let mut ops = Vec::new();
        let n = 1 + rng.usize_below(7);
        for k in 0..n {
            match rng.below(10) {
                0 | 1 => {
                    let nh = if rng.chance(1, 2) { draw_hosts(&mut rng, 3 + k) } else { edit_hosts(&mut rng, &current, 3 + k) };
                    let fault = if rng.chance(1, 2) { 1 + rng.below(4) as u8 } else { 0 };
                    ops.push(DOp::Reload { hosts: nh.clone(), fault });
                    if fault == 0 {
                        history.push(current.clone());
                        current = nh;
                    }
                }
                2 => ops.push(DOp::Wait { us: rng.size(1, 100_000) }),
                _ => {
                    // names of the configuration in force, of the one before it and of any earlier one
                    let mut pool: Vec<&Hosts> = vec![&current, &current, &hosts];
                    if let Some(prev) = history.last() {
                        pool.push(prev);
                        pool.push(prev);
                    }
                    pool.extend(history.iter());
                    let sni = draw_sni(&mut rng, &pool);
                    ops.push(DOp::Connect {
                        sni,
                        alpn: draw_alpn(&mut rng),
                        stall_us: if rng.chance(1, 5) { rng.size(1, 50_000) } else { 0 },
                    });
                }
            }
        }
        let plan = DPlan {
            seed: rng.next_u64(),
            h1,
            h2,
            quic: rng.chance(1, 3),
            rp_configured: rng.chance(2, 3),
            hosts,
            ops,
        };
        to_plan(&plan)
    }

    fn execute(&self, plan: &Value) -> Outcome {
        let plan: DPlan = match from_plan(plan) {
            Ok(p) => p,
            Err(e) => return harness_error(e),
        };
        let p2 = plan.clone();
        let (obs, rep) = sim::run(plan.seed, Duration::from_secs(3600), move || run(p2));
        let mut out = Outcome::default();
        match obs {
            Some(obs) => judge(&plan, &obs, &mut out),
            None => {
                if !rep.main_panicked {
                    out.inconclusive = true;
                }
            }
        }
        sim::finish(out, &rep)
    }
}

#[derive(Debug, Clone, PartialEq)]
pub enum Seen {
    /// handshake refused / connection dropped
    Refused(String),
    Served { cert: Option<usize>, alpn: Option<Vec<u8>>, channel: String },
}

#[derive(Debug, Clone)]
pub struct ConnObs {
    pub op: usize,
    pub seen: Seen,
    /// generation of the host configuration in force when the connection started, and the
    /// one in force when it ended (they differ if a reload overlapped it)
    pub gen_start: usize,
    pub gen_end: usize,
}

#[derive(Debug, Default, Clone)]
pub struct Obs {
    pub setup_error: Option<String>,
    pub conns: Vec<ConnObs>,
    /// (op, returned Ok?)
    pub reloads: Vec<(usize, bool)>,
    pub listen_ended: bool,
}

fn host_settings(h: &Hosts, fault: u8, dir: &str) -> Result<trusttunnel::settings::TlsHostsSettings, String> {
    // through serde, as a hosts file would come in: validation then happens inside reload
    let mut faulty_cert: Option<String> = None;
    if fault == 1 || fault == 2 {
        let p = format!("{}/broken-cert.pem", dir);
        std::fs::copy(endpoint::cert_path(h.main[0].cert), &p).map_err(|e| e.to_string())?;
        faulty_cert = Some(p);
    }
    let conv = |v: &Vec<HostCfg>, first_faulty: bool| -> Vec<Value> {
        v.iter()
            .enumerate()
            .map(|(i, x)| {
                let cert = if first_faulty && i == 0 && faulty_cert.is_some() {
                    faulty_cert.clone().unwrap()
                } else {
                    endpoint::cert_path(x.cert)
                };
                serde_json::json!({
                    "hostname": x.hostname,
                    "cert_chain_path": cert,
                    "private_key_path": endpoint::key_path(x.cert),
                    "allowed_sni": x.allowed_sni,
                })
            })
            .collect()
    };
    let mut main = conv(&h.main, true);
    let mut ping = conv(&h.ping, false);
    if fault == 3 {
        // the same name twice, across classes
        let mut dup = main[0].clone();
        dup["allowed_sni"] = serde_json::json!([]);
        ping.push(dup);
    }
    if fault == 4 {
        main.clear();
    }
    let json = serde_json::json!({
        "main_hosts": main,
        "ping_hosts": ping,
        "speedtest_hosts": conv(&h.speed, false),
        "reverse_proxy_hosts": conv(&h.rp, false),
    });
    let s = serde_json::from_value::<trusttunnel::settings::TlsHostsSettings>(json).map_err(|e| e.to_string())?;
    // the storage fault strikes after the settings were read
    match (fault, &faulty_cert) {
        (1, Some(p)) => {
            let _ = std::fs::remove_file(p);
        }
        (2, Some(p)) => {
            let _ = std::fs::write(p, "this is not a certificate\n");
        }
        _ => {}
    }
    Ok(s)
}

async fn run(plan: DPlan) -> Obs {
    // on TLS connections only semantic events are traced (the ciphertext depends on entropy the
    // simulation does not own): the plan's digest stands in for the bytes that were sent
    world::note(900, crate::prng::fnv64(serde_json::to_string(&plan).unwrap_or_default().as_bytes()), 0);
    let mut obs = Obs::default();
    let cfg = EpConfig {
        listen: LISTEN.parse().unwrap(),
        h1: plan.h1,
        h2: plan.h2,
        quic: plan.quic,
        reverse_proxy: if plan.rp_configured { Some((origin(), "/rp".into())) } else { None },
        main_hosts: plan.hosts.main.clone(),
        ping_hosts: plan.hosts.ping.clone(),
        speed_hosts: plan.hosts.speed.clone(),
        rp_hosts: plan.hosts.rp.clone(),
        ..EpConfig::default()
    };
    let auth = endpoint::registry(&cfg).map(|r| Arc::new(SniOk { inner: r }) as Arc<dyn Authenticator>);
    let ep = match endpoint::build(&cfg, auth) {
        Ok(e) => e,
        Err(e) => {
            obs.setup_error = Some(e);
            return obs;
        }
    };
    world::with(|w| {
        w.hosts.insert(origin(), HostPlan::default());
    });
    let origin_hits: Arc<Mutex<usize>> = Arc::new(Mutex::new(0));
    let origin_task = {
        let hits = origin_hits.clone();
        tokio::spawn(async move {
            loop {
                let (_, conn) = world::next_established().await;
                *hits.lock().unwrap() += 1;
                tokio::spawn(async move {
                    let mut buf = Vec::new();
                    loop {
                        if find(&buf, b"\r\n\r\n").is_some() {
                            break;
                        }
                        match conn.read(4096).await {
                            PeerRead::Data(d) => buf.extend_from_slice(&d),
                            _ => return,
                        }
                    }
                    let _ = conn.write_all(b"HTTP/1.1 200 OK\r\nContent-Length: 6\r\nX-Channel: origin\r\n\r\norigin").await;
                    conn.shutdown_write();
                });
            }
        })
    };
    let listening = patht::start(&ep, cfg.listen).await;
    let dir = format!("/verif/work/demux-{}-{:x}", std::process::id(), plan.seed);
    let _ = std::fs::create_dir_all(&dir);
    let generation = Arc::new(Mutex::new(0usize));
    let conns: Arc<Mutex<Vec<ConnObs>>> = Arc::new(Mutex::new(Vec::new()));
    let mut tasks = Vec::new();
    let mut gen_count = 0usize;
    for (k, op) in plan.ops.iter().enumerate() {
        match op {
            DOp::Wait { us } => sleep_us(*us).await,
            DOp::Reload { hosts, fault } => {
                let r = host_settings(hosts, *fault, &dir).and_then(|s| ep.core.reload_tls_hosts_settings(s).map_err(|e| e.to_string()));
                obs.reloads.push((k, r.is_ok()));
                if r.is_ok() {
                    gen_count += 1;
                    *generation.lock().unwrap() = gen_count;
                }
                world::note(500 + k as u32, r.is_ok() as u64, *fault as u64);
            }
            DOp::Connect { sni, alpn, stall_us } => {
                if let Some(label) = sni.as_ref().and_then(|s| s.split('.').next()).filter(|l| l.starts_with("creds-canary-")) {
                    sim::canary("sni-credentials", label);
                }
                let sni = sni.clone();
                let alpn = alpn.clone();
                let stall = *stall_us;
                let generation = generation.clone();
                let conns = conns.clone();
                let origin_hits = origin_hits.clone();
                let seed = plan.seed ^ k as u64;
                let t = tokio::spawn(async move {
                    let gen_start = *generation.lock().unwrap();
                    let seen = one_connection(sni, alpn, stall, seed, k, origin_hits).await;
                    let gen_end = *generation.lock().unwrap();
                    conns.lock().unwrap().push(ConnObs { op: k, seen, gen_start, gen_end });
                });
                if stall == 0 {
                    // sequential unless the plan wants a reload to overlap this handshake
                    let _ = tokio::time::timeout(Duration::from_secs(60), t).await;
                } else {
                    tasks.push(t);
                    sleep_us(stall / 2).await;
                }
            }
        }
    }
    for t in tasks {
        let _ = tokio::time::timeout(Duration::from_secs(60), t).await;
    }
    obs.listen_ended = listening.task.is_finished();
    listening.task.abort();
    origin_task.abort();
    let _ = std::fs::remove_dir_all(&dir);
    obs.conns = conns.lock().unwrap().clone();
    obs.conns.sort_by_key(|c| c.op);
    obs
}

async fn one_connection(
    sni: Option<String>,
    alpn: Vec<Vec<u8>>,
    stall_us: u64,
    seed: u64,
    k: usize,
    origin_hits: Arc<Mutex<usize>>,
) -> Seen {
    let hits_before = *origin_hits.lock().unwrap();
    let dns_before = world::with(|w| w.dns_queries.len());
    let params = TlsParams {
        sni: sni.clone(),
        alpn,
        // a stalled first flight: the ClientHello dribbles in while a reload may happen
        seg: if stall_us > 0 { Cut::Fixed(64) } else { Cut::All },
        max_fragment: None,
                pace: None,
    };
    let conn = match patht::connect_raw(LISTEN.parse().unwrap(), SocketAddr::new("203.0.113.90".parse().unwrap(), 42_000 + k as u16), Default::default()) {
        Some(c) => c,
        None => return Seen::Refused("nothing listens".into()),
    };
    if stall_us > 0 {
        // hold the very first bytes back
        sleep_us(stall_us).await;
    }
    let tls = match tokio::time::timeout(Duration::from_secs(30), crate::tls::tls_connect(conn, params, Rng::new(seed))).await {
        Ok(Ok(t)) => t,
        Ok(Err(e)) => return Seen::Refused(e),
        Err(_) => return Seen::Refused("handshake timed out".into()),
    };
    let cert = tls.cert;
    let negotiated = tls.alpn.clone();
    // the Host of the probe is the designated host's name, not the credentials-carrying SNI
    let host = match sni.as_deref() {
        Some(s) if s.starts_with("creds-canary-") => s.split_once('.').map(|x| x.1.to_string()).unwrap_or_else(|| s.to_string()),
        Some(s) => s.to_string(),
        None => "none".into(),
    };
    // the probe: one request that every channel answers differently
    let auth = basic_auth("u0", "p0-secret-password");
    let (status, body): (Option<u16>, Vec<u8>) = if negotiated.as_deref() == Some(b"h2") {
        match h2_connect_io(tls.stream, H2Params::default()).await {
            Err(_) => (None, vec![]),
            Ok(c) => {
                let mut send = c.send;
                let req = http::Request::builder()
                    .method("GET")
                    .uri(format!("https://{}/probe", host))
                    .header("proxy-authorization", auth)
                    .body(())
                    .unwrap();
                if std::future::poll_fn(|cx| send.poll_ready(cx)).await.is_err() {
                    (None, vec![])
                } else {
                    match send.send_request(req, true) {
                        Err(_) => (None, vec![]),
                        Ok((resp, _)) => match tokio::time::timeout(Duration::from_secs(40), resp).await {
                            Ok(Ok(r)) => {
                                let s = r.status().as_u16();
                                let mut b = r.into_body();
                                let mut v = Vec::new();
                                while let Ok(Some(Ok(d))) = tokio::time::timeout(Duration::from_secs(5), b.data()).await {
                                    let _ = b.flow_control().release_capacity(d.len());
                                    v.extend_from_slice(&d);
                                }
                                (Some(s), v)
                            }
                            _ => (None, vec![]),
                        },
                    }
                }
            }
        }
    } else {
        let mut stream = tls.stream;
        let head = format!("GET /probe HTTP/1.1\r\nHost: {}\r\nProxy-Authorization: {}\r\n\r\n", host, auth);
        let _ = stream.write_all(head.as_bytes()).await;
        let _ = stream.flush().await;
        match tokio::time::timeout(Duration::from_secs(40), io_read_head(&mut stream)).await {
            Ok(Ok((h, rest))) => {
                let mut v = rest;
                let mut n = 0u64;
                let _ = tokio::time::timeout(Duration::from_secs(5), io_read_to_end(&mut stream, &mut v, true, &mut n)).await;
                (Some(h.status), v)
            }
            _ => (None, vec![]),
        }
    };
    // each channel answers the probe in its own way (connections may run concurrently, so
    // nothing global is consulted): the origin's body, an empty 200, a 400, or the 502 of a
    // plain-HTTP forward to a host name nobody resolves
    let _ = (hits_before, dns_before);
    let channel = match status {
        Some(200) if body == b"origin" => "reverse-proxy",
        Some(200) if body.is_empty() => "ping",
        Some(400) => "speedtest",
        Some(502) => "tunnel",
        Some(407) => "tunnel",
        None => "silent",
        _ => "unknown",
    };
    Seen::Served {
        cert,
        alpn: negotiated,
        channel: channel.to_string(),
    }
}

// ---------------------------------------------------------------------------------------
// reference router
// ---------------------------------------------------------------------------------------

#[derive(Debug, Clone, PartialEq)]
enum Want {
    Refuse,
    Serve { cert: usize, channel: &'static str, alpn: Option<&'static str> },
    /// the statement leaves it open
    Open,
}

fn route(plan: &DPlan, hosts: &Hosts, sni: &Option<String>, alpn: &[Vec<u8>]) -> Want {
    let sni = match sni {
        Some(s) => s,
        None => return Want::Refuse,
    };
    let rp_hosts: &[HostCfg] = if plan.rp_configured { &hosts.rp } else { &[] };
    let exact = |v: &[HostCfg]| v.iter().find(|h| h.hostname == *sni).cloned();
    let alts: Vec<&HostCfg> = hosts.main.iter().filter(|h| h.allowed_sni.contains(sni)).collect();
    if alts.len() > 1 && exact(&hosts.main).is_none() {
        // the same alternative SNI on two hosts: the configuration does not say which
        return Want::Open;
    }
    let by_alt = alts.first().map(|h| (*h).clone());
    let by_creds = sni
        .split_once('.')
        .and_then(|(_, rest)| hosts.main.iter().find(|h| h.hostname == rest))
        .cloned();
    let (entry, channel): (HostCfg, &'static str) = if let Some(h) = exact(&hosts.main) {
        (h, "tunnel")
    } else if let Some(h) = exact(rp_hosts) {
        (h, "reverse-proxy")
    } else if let Some(h) = exact(&hosts.ping) {
        (h, "ping")
    } else if let Some(h) = exact(&hosts.speed) {
        (h, "speedtest")
    } else {
        // a name of an ignored reverse-proxy host may still be somebody's alternative or
        // credentials form
        match (by_creds, by_alt) {
            (Some(a), Some(b)) if a.hostname != b.hostname => return Want::Open,
            (Some(h), _) | (None, Some(h)) => (h, "tunnel"),
            (None, None) => return Want::Refuse,
        }
    };
    // protocol
    let offered: Vec<&str> = alpn.iter().filter_map(|a| std::str::from_utf8(a).ok()).collect();
    let enabled = |p: &str| match p {
        "h3" => plan.quic,
        "h2" => plan.h2,
        "http/1.1" => plan.h1,
        _ => false,
    };
    let permitted = |p: &str| !(channel == "reverse-proxy" && p == "h2");
    let usable: Vec<&'static str> = ["h3", "h2", "http/1.1"]
        .into_iter()
        .filter(|p| offered.contains(p) && enabled(p) && permitted(p))
        .collect();
    if alpn.is_empty() {
        return if plan.h1 {
            Want::Serve { cert: entry.cert, channel, alpn: None }
        } else {
            Want::Refuse
        };
    }
    match usable.first() {
        None => Want::Refuse,
        // HTTP/3 cannot be spoken on TCP: refusal or the next preference are both allowed
        Some(&"h3") => Want::Open,
        Some(p) => Want::Serve { cert: entry.cert, channel, alpn: Some(p) },
    }
}

fn matches(want: &Want, seen: &Seen) -> bool {
    match (want, seen) {
        (Want::Open, _) => true,
        (Want::Refuse, Seen::Refused(_)) => true,
        // a connection that completes the handshake but is never answered is not "served"
        (Want::Refuse, Seen::Served { channel, .. }) => channel == "silent" && false,
        (Want::Serve { .. }, Seen::Refused(_)) => false,
        (Want::Serve { cert, channel, alpn }, Seen::Served { cert: c, alpn: a, channel: ch }) => {
            *c == Some(*cert) && ch == channel && a.as_deref() == alpn.map(|x| x.as_bytes())
        }
    }
}

fn judge(plan: &DPlan, o: &Obs, out: &mut Outcome) {
    if let Some(e) = &o.setup_error {
        out.violate("HARNESS", "demux-setup", e.clone());
        return;
    }
    if o.listen_ended {
        out.violate("C09", "demux:listen-returned", "Core::listen() returned".to_string());
    }
    // configurations in force, by generation
    let mut gens: Vec<Hosts> = vec![plan.hosts.clone()];
    for (k, op) in plan.ops.iter().enumerate() {
        if let DOp::Reload { hosts, fault } = op {
            let ok = o.reloads.iter().find(|r| r.0 == k).map(|r| r.1);
            match (fault, ok) {
                (0, Some(true)) => gens.push(hosts.clone()),
                (0, Some(false)) | (0, None) => {
                    out.violate("C05", "demux:valid-reload-refused", format!("reload at op {} with valid settings failed", k));
                    gens.push(gens.last().unwrap().clone());
                }
                (f, Some(true)) => {
                    out.violate(
                        "C05",
                        format!("demux:invalid-reload-accepted:fault{}", f),
                        format!("reload at op {} with fault {} was accepted", k, f),
                    );
                    gens.push(hosts.clone());
                }
                _ => {}
            }
            out.cell(format!("reload:fault{}", fault));
        }
    }
    for c in &o.conns {
        let (sni, alpn) = match &plan.ops[c.op] {
            DOp::Connect { sni, alpn, .. } => (sni, alpn),
            _ => continue,
        };
        out.nontrivial = true;
        // served entirely by the configuration before or after an overlapping reload
        let candidates: Vec<Want> = (c.gen_start..=c.gen_end.min(gens.len() - 1)).map(|g| route(plan, &gens[g], sni, alpn)).collect();
        let ok = candidates.iter().any(|w| matches(w, &c.seen));
        let want = &candidates[0];
        out.cell(format!(
            "{}:{}",
            match want {
                Want::Refuse => "refuse",
                Want::Open => "open",
                Want::Serve { channel, .. } => channel,
            },
            if c.gen_start != c.gen_end { "reload-overlaps" } else { "steady" }
        ));
        if !ok {
            let kind = match (want, &c.seen) {
                (Want::Refuse, _) => "served-but-must-refuse".to_string(),
                (Want::Serve { .. }, Seen::Refused(_)) => "refused-but-must-serve".to_string(),
                (Want::Serve { cert, channel, alpn }, Seen::Served { cert: c2, alpn: a2, channel: ch2 }) => {
                    if Some(*cert) != *c2 {
                        "wrong-certificate".to_string()
                    } else if *channel != ch2 {
                        format!("wrong-channel:{}-instead-of-{}", ch2, channel)
                    } else {
                        format!("wrong-protocol:{:?}-instead-of-{:?}", a2.as_ref().map(|x| String::from_utf8_lossy(x).into_owned()), alpn)
                    }
                }
                _ => "mismatch".to_string(),
            };
            out.violate(
                "C05",
                format!("demux:{}{}", kind, if c.gen_start != c.gen_end { ":during-reload" } else { "" }),
                format!(
                    "op {}: SNI {:?} ALPN {:?} listen(h1={},h2={},quic={}) rp_configured={} hosts {:?}: expected {:?}, observed {:?}",
                    c.op,
                    sni,
                    alpn.iter().map(|a| String::from_utf8_lossy(a).into_owned()).collect::<Vec<_>>(),
                    plan.h1, plan.h2, plan.quic, plan.rp_configured,
                    gens[c.gen_start.min(gens.len() - 1)],
                    candidates,
                    c.seen
                ),
            );
        }
    }
}
