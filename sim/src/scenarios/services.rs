//! C18: ping, speedtest and reverse-proxy channels, reached through the real accept loop,
//! TLS listener and SNI/marker/path demultiplexing (path T).

use crate::actors::*;
use crate::endpoint::{self, EpConfig, HostCfg};
use crate::patht;
use crate::prng::Rng;
use crate::scenario::*;
use crate::sim::{self, Outcome};
use crate::tls::TlsParams;
use crate::world::{self, Cut, HostPlan, PeerRead};
use bytes::Bytes;
use serde::{Deserialize, Serialize};
use serde_json::Value;
use std::net::SocketAddr;
use std::sync::{Arc, Mutex};
use std::time::Duration;
use tokio::io::AsyncWriteExt;

pub struct Services;

#[derive(Clone, Debug, Serialize, Deserialize, PartialEq)]
pub enum Svc {
    /// any request on the ping host
    PingHost,
    /// marker header on the main host: 0 = x-ping: 1, 1 = sec-fetch-mode: navigate
    PingMarker(u8),
    /// download request: path text for N (e.g. "1", "01", "+1", "101"), via the speedtest
    /// host (false) or the main host's /speed/ prefix (true)
    Download(String, bool),
    /// upload: Content-Length text (None = absent), bytes actually sent, via main host?
    Upload(Option<String>, usize, bool),
    /// something the speedtest channel must refuse: (method, path)
    SpeedOther(String, String, bool),
    /// reverse proxy by SNI host (false) or by path mask on the main host (true)
    ReverseProxy(bool),
}

#[derive(Clone, Debug, Serialize, Deserialize)]
pub struct SPlan {
    pub seed: u64,
    pub svc: Svc,
    pub h1: bool,
    pub h2: bool,
    /// ALPN the client offers, in order
    pub alpn: Vec<String>,
    pub allow_private: bool,
    pub origin_loopback: bool,
    pub with_credentials: bool,
    pub client_window: u32,
    pub seg: CutP,
    pub payload_len: usize,
    /// appended to the target of a reverse-proxied request (query strings, deeper paths)
    #[serde(default)]
    pub rp_suffix: String,
    /// method and path of a ping request (empty = GET and the usual path): the markers and the
    /// ping host answer whatever is asked, the speedtest and reverse-proxy paths included
    /// the client's own X-Original-Protocol on a reverse-proxied request (empty = none): what the
    /// origin is told is the endpoint's statement, not the client's
    #[serde(default)]
    pub rp_claims_protocol: String,
    #[serde(default)]
    pub ping_method: String,
    #[serde(default)]
    pub ping_path: String,
}

const LISTEN: &str = "198.51.100.1:443";
const MAIN: &str = "vpn.example";
const PING: &str = "ping.example";
const SPEED: &str = "speed.example";
const RP: &str = "rp.example";
const MB: u64 = 1 << 20;

fn origin(loopback: bool) -> SocketAddr {
    if loopback {
        "127.0.0.1:8081".parse().unwrap()
    } else {
        "93.184.216.60:8080".parse().unwrap()
    }
}

impl Scenario for Services {
    fn name(&self) -> &'static str {
        "services"
    }

    fn budget(&self, tier: Tier) -> u64 {
        match tier {
            Tier::Quick => 20_000,
            Tier::Thorough => 2_000_000,
        }
    }

    fn generate(&self, seed: u64, index: u64, tier: Tier) -> Value {
        let mut rng = Rng::new(seed).fork(&format!("services{}", index));
        let via_main = rng.chance(1, 3);
        let svc = match rng.below(10) {
            0 => Svc::PingHost,
            1 => Svc::PingMarker(rng.below(2) as u8),
            2 | 3 | 4 => {
                let big = tier == Tier::Thorough && rng.chance(1, 400);
                let n = if big {
                    (*rng.pick(&["99", "100"])).to_string()
                } else {
                    (*rng.pick(&["0", "1", "1", "2", "2", "3", "101", "1000000000", "01", "+1", "-1", "", "1.5", "4294967297"]))
                        .to_string()
                };
                Svc::Download(n, via_main)
            }
            5 | 6 => {
                let cl = match rng.below(9) {
                    0 => None,
                    1 => Some("0".to_string()),
                    2 => Some("1".to_string()),
                    3 => Some((120 * MB).to_string()),
                    4 => Some((120 * MB + 1).to_string()),
                    5 => Some("abc".to_string()),
                    6 => Some("-5".to_string()),
                    _ => Some(rng.size(2, 200_000).to_string()),
                };
                // a refused upload is not followed by a bulk body: the refusal would race it
                let send = cl
                    .as_ref()
                    .and_then(|x| x.parse::<u64>().ok())
                    .map(|n| if n > 120 * MB { 64 } else { n.min(200_000) as usize })
                    .unwrap_or(rng.usize_below(100));
                Svc::Upload(cl, send, via_main)
            }
            7 => {
                let (m, p) = match rng.below(6) {
                    0 => ("GET", "/"),
                    1 => ("GET", "/1mb.binx"),
                    2 => ("PUT", "/1mb.bin"),
                    3 => ("POST", "/upload.htm"),
                    4 => ("GET", "/upload.html"),
                    _ => ("DELETE", "/1mb.bin"),
                };
                Svc::SpeedOther(m.into(), p.into(), via_main)
            }
            _ => Svc::ReverseProxy(rng.chance(1, 3)),
        };
        let (h1, h2) = match rng.below(6) {
            0 => (true, false),
            1 => (false, true),
            _ => (true, true),
        };
        let alpn: Vec<String> = match rng.below(6) {
            0 => vec![],
            1 => vec!["h2".into()],
            2 => vec!["http/1.1".into()],
            3 => vec!["http/1.1".into(), "h2".into()],
            _ => vec!["h2".into(), "http/1.1".into()],
        };
        let plan = SPlan {
            seed: rng.next_u64(),
            svc,
            h1,
            h2,
            alpn,
            allow_private: rng.chance(1, 2),
            origin_loopback: rng.chance(1, 2),
            with_credentials: rng.chance(1, 4),
            client_window: if rng.chance(1, 2) { 65_535 } else { rng.size(1024, 1 << 20) as u32 },
            seg: CutP::draw(&mut rng, 16 * 1024),
            payload_len: rng.size(0, 32 * 1024) as usize,
            rp_suffix: (*rng.pick(&["", "", "?q=how+much&page=2", "?", "/deeper/path.txt", "?a=%20b&c=d/e", ";v=1?x=y"])).to_string(),
            rp_claims_protocol: if rng.chance(1, 3) { (*rng.pick(&["HTTP3", "HTTP2", "QUIC", "", "http/0.9"])).to_string() } else { String::new() },
            ping_method: if rng.chance(1, 2) { String::new() } else { (*rng.pick(&["GET", "HEAD", "POST", "PUT", "OPTIONS", "DELETE"])).to_string() },
            ping_path: if rng.chance(1, 2) {
                String::new()
            } else {
                (*rng.pick(&["/", "/speed/1mb.bin", "/speed/upload.html", "/speed/", "/speed/100mb.bin", "/1mb.bin", "/upload.html", "/rp/socket", "/index.html?x=1", "/a/b/c"])).to_string()
            },
        };
        to_plan(&plan)
    }

    fn execute(&self, plan: &Value) -> Outcome {
        let plan: SPlan = match from_plan(plan) {
            Ok(p) => p,
            Err(e) => return harness_error(e),
        };
        let p2 = plan.clone();
        let (obs, rep) = sim::run(plan.seed, Duration::from_secs(3600), move || run(p2));
        let mut out = Outcome::default();
        match obs {
            Some(obs) => judge(&plan, &obs, &mut out),
            None => {
                if !rep.main_panicked {
                    out.inconclusive = true;
                }
            }
        }
        sim::finish(out, &rep)
    }
}

#[derive(Debug, Default, Clone)]
pub struct Obs {
    pub setup_error: Option<String>,
    pub tls_error: Option<String>,
    pub negotiated: Option<String>,
    pub cert: Option<usize>,
    pub status: Option<u16>,
    pub body_len: u64,
    pub body_nonzero: bool,
    pub body: Vec<u8>,
    pub end_clean: Option<bool>,
    pub error: Option<String>,
    pub responded_before_body_complete: bool,
    /// the endpoint gave no verdict while the declared body was incomplete
    pub waiting_for_body: bool,
    pub origin_connected: bool,
    pub origin_head: Vec<u8>,
    pub origin_rx: Vec<u8>,
    pub connects: Vec<SocketAddr>,
    pub dns: Vec<String>,
    pub listen_ended: Option<String>,
}

type Shared<T> = Arc<Mutex<T>>;

fn request_of(plan: &SPlan) -> (String, String, String, Vec<(String, String)>, Vec<u8>) {
    // (sni, method, path, headers, body)
    let mut headers: Vec<(String, String)> = vec![("user-agent".into(), "sim/1.0".into())];
    if plan.with_credentials {
        headers.push(("proxy-authorization".into(), basic_auth("u0", "p0-secret-password")));
    }
    let speed_sni = |via_main: bool| if via_main { MAIN } else { SPEED }.to_string();
    let prefix = |via_main: bool| if via_main { "/speed" } else { "" };
    let ping_m = |d: &str| if plan.ping_method.is_empty() { d.to_string() } else { plan.ping_method.clone() };
    let ping_p = |d: &str| if plan.ping_path.is_empty() { d.to_string() } else { plan.ping_path.clone() };
    match &plan.svc {
        Svc::PingHost => (PING.into(), ping_m("GET"), ping_p("/anything"), headers, vec![]),
        Svc::PingMarker(k) => {
            if *k == 0 {
                headers.push(("x-ping".into(), "1".into()));
            } else {
                headers.push(("sec-fetch-mode".into(), "navigate".into()));
            }
            (MAIN.into(), ping_m("GET"), ping_p("/"), headers, vec![])
        }
        Svc::Download(n, via) => (speed_sni(*via), "GET".into(), format!("{}/{}mb.bin", prefix(*via), n), headers, vec![]),
        Svc::Upload(cl, send, via) => {
            if let Some(cl) = cl {
                headers.push(("content-length".into(), cl.clone()));
            }
            (speed_sni(*via), "POST".into(), format!("{}/upload.html", prefix(*via)), headers, vec![0x55; *send])
        }
        Svc::SpeedOther(m, p, via) => (speed_sni(*via), m.clone(), format!("{}{}", prefix(*via), p), headers, vec![]),
        Svc::ReverseProxy(by_path) => {
            if !plan.rp_claims_protocol.is_empty() {
                headers.push(("x-original-protocol".into(), plan.rp_claims_protocol.clone()));
            }
            if *by_path {
                headers.push(("upgrade".into(), "websocket".into()));
                headers.push(("connection".into(), "Upgrade".into()));
                headers.push(("x-custom".into(), "kept, as it is".into()));
                (MAIN.into(), "GET".into(), format!("/rp/socket{}", plan.rp_suffix), headers, vec![])
            } else {
                headers.push(("x-custom".into(), "kept, as it is".into()));
                (RP.into(), "GET".into(), format!("/index.html{}", plan.rp_suffix), headers, vec![])
            }
        }
    }
}

async fn run(plan: SPlan) -> Obs {
    // on TLS connections only semantic events are traced (the ciphertext depends on entropy the
    // simulation does not own): the plan's digest stands in for the bytes that were sent
    world::note(900, crate::prng::fnv64(serde_json::to_string(&plan).unwrap_or_default().as_bytes()), 0);
    let obs: Shared<Obs> = Arc::new(Mutex::new(Obs::default()));
    let host = |name: &str, cert: usize| HostCfg {
        hostname: name.into(),
        cert,
        allowed_sni: vec![],
    };
    let cfg = EpConfig {
        listen: LISTEN.parse().unwrap(),
        h1: plan.h1,
        h2: plan.h2,
        allow_private: plan.allow_private,
        speedtest: true,
        reverse_proxy: Some((origin(plan.origin_loopback), "/rp".into())),
        main_hosts: vec![host(MAIN, 0)],
        ping_hosts: vec![host(PING, 1)],
        speed_hosts: vec![host(SPEED, 2)],
        rp_hosts: vec![host(RP, 3)],
        ..EpConfig::default()
    };
    let ep = match endpoint::build(&cfg, endpoint::registry(&cfg)) {
        Ok(e) => e,
        Err(e) => {
            obs.lock().unwrap().setup_error = Some(e);
            return obs.lock().unwrap().clone();
        }
    };
    world::with(|w| {
        w.hosts.insert(origin(plan.origin_loopback), HostPlan::default());
    });
    let listening = patht::start(&ep, cfg.listen).await;

    // the reverse proxy's origin
    let origin_task = {
        let obs = obs.clone();
        let plan = plan.clone();
        tokio::spawn(async move {
            let (_, conn) = world::next_established().await;
            obs.lock().unwrap().origin_connected = true;
            let mut buf = Vec::new();
            loop {
                if let Some(i) = find(&buf, b"\r\n\r\n") {
                    obs.lock().unwrap().origin_head = buf[..i + 4].to_vec();
                    buf.drain(..i + 4);
                    break;
                }
                match conn.read(4096).await {
                    PeerRead::Data(d) => buf.extend_from_slice(&d),
                    _ => return,
                }
            }
            let payload = pattern(plan.seed ^ 0x31, 0, plan.payload_len);
            let head = "HTTP/1.1 101 Switching Protocols\r\nUpgrade: websocket\r\nConnection: Upgrade\r\nX-Origin: yes\r\n\r\n";
            let head2 = format!("HTTP/1.1 200 OK\r\nContent-Length: {}\r\nX-Origin: yes\r\n\r\n", payload.len());
            let by_path = matches!(plan.svc, Svc::ReverseProxy(true));
            let _ = conn.write_all(if by_path { head.as_bytes() } else { head2.as_bytes() }).await;
            let _ = conn.write_all(&payload).await;
            obs.lock().unwrap().origin_rx = buf.clone();
            loop {
                match conn.read(4096).await {
                    PeerRead::Data(d) => obs.lock().unwrap().origin_rx.extend_from_slice(&d),
                    _ => break,
                }
            }
            conn.shutdown_write();
        })
    };

    let (sni, method, path, headers, body) = request_of(&plan);
    let client = {
        let obs = obs.clone();
        let plan = plan.clone();
        async move {
            let params = TlsParams {
                sni: Some(sni.clone()),
                alpn: plan.alpn.iter().map(|a| a.as_bytes().to_vec()).collect(),
                seg: plan.seg.to_cut(),
                max_fragment: None,
                pace: None,
            };
            let (tls, _conn) = match patht::connect_tls(
                LISTEN.parse().unwrap(),
                "203.0.113.44:45000".parse().unwrap(),
                params,
                Rng::new(plan.seed),
            )
            .await
            {
                Ok(x) => x,
                Err(e) => {
                    obs.lock().unwrap().tls_error = Some(e);
                    return;
                }
            };
            {
                let mut o = obs.lock().unwrap();
                o.negotiated = tls.alpn.as_ref().map(|a| String::from_utf8_lossy(a).into_owned());
                o.cert = tls.cert;
            }
            let is_h2 = tls.alpn.as_deref() == Some(b"h2");
            let keep_body = matches!(plan.svc, Svc::ReverseProxy(_));
            if is_h2 {
                let c = match h2_connect_io(
                    tls.stream,
                    H2Params {
                        initial_window: plan.client_window,
                        conn_window: 4 << 20,
                        ..Default::default()
                    },
                )
                .await
                {
                    Ok(c) => c,
                    Err(e) => {
                        obs.lock().unwrap().error = Some(e);
                        return;
                    }
                };
                let mut send = c.send;
                let mut b = http::Request::builder().method(method.as_str()).uri(format!("https://{}{}", sni, path));
                for (k, v) in &headers {
                    b = b.header(k.as_str(), v.as_str());
                }
                let req = b.body(()).unwrap();
                if std::future::poll_fn(|cx| send.poll_ready(cx)).await.is_err() {
                    obs.lock().unwrap().error = Some("h2 connection refused".into());
                    return;
                }
                let (resp, mut tx) = match send.send_request(req, body.is_empty()) {
                    Ok(x) => x,
                    Err(e) => {
                        obs.lock().unwrap().error = Some(e.to_string());
                        return;
                    }
                };
                let declared: Option<u64> = headers
                    .iter()
                    .find(|(k, _)| k == "content-length")
                    .and_then(|(_, v)| v.parse().ok());
                let partial = declared.map(|d| (body.len() as u64) < d).unwrap_or(false);
                let up = {
                    let body = body.clone();
                    tokio::spawn(async move {
                        if body.is_empty() && !partial {
                            return;
                        }
                        let mut off = 0;
                        while off < body.len() {
                            tx.reserve_capacity(body.len() - off);
                            match std::future::poll_fn(|cx| tx.poll_capacity(cx)).await {
                                Some(Ok(n)) => {
                                    let n = n.min(body.len() - off);
                                    if tx.send_data(Bytes::copy_from_slice(&body[off..off + n]), false).is_err() {
                                        return;
                                    }
                                    off += n;
                                }
                                _ => return,
                            }
                        }
                        if partial {
                            // the rest never comes: hold the stream open
                            std::future::pending::<()>().await;
                        }
                        let _ = tx.send_data(Bytes::new(), true);
                    })
                };
                let resp = if partial {
                    match tokio::time::timeout(Duration::from_secs(5), resp).await {
                        Ok(r) => r,
                        Err(_) => {
                            // no verdict while the body is incomplete: the upload was accepted
                            obs.lock().unwrap().waiting_for_body = true;
                            return;
                        }
                    }
                } else {
                    resp.await
                };
                let resp = match resp {
                    Ok(r) => r,
                    Err(e) => {
                        obs.lock().unwrap().error = Some(format!("response: {}", e));
                        return;
                    }
                };
                {
                    let mut o = obs.lock().unwrap();
                    o.status = Some(resp.status().as_u16());
                    o.responded_before_body_complete = !up.is_finished();
                }
                let mut rb = resp.into_body();
                loop {
                    match rb.data().await {
                        Some(Ok(d)) => {
                            let _ = rb.flow_control().release_capacity(d.len());
                            let mut o = obs.lock().unwrap();
                            o.body_len += d.len() as u64;
                            o.body_nonzero |= d.iter().any(|b| *b != 0);
                            if keep_body {
                                o.body.extend_from_slice(&d);
                            }
                        }
                        Some(Err(e)) => {
                            let mut o = obs.lock().unwrap();
                            o.end_clean = Some(false);
                            o.error = Some(e.to_string());
                            break;
                        }
                        None => {
                            obs.lock().unwrap().end_clean = Some(true);
                            break;
                        }
                    }
                }
                let _ = c.driver;
            } else {
                let mut stream = tls.stream;
                let mut head = format!("{} {} HTTP/1.1\r\nHost: {}\r\n", method, path, sni);
                for (k, v) in &headers {
                    head.push_str(&format!("{}: {}\r\n", k, v));
                }
                head.push_str("\r\n");
                if stream.write_all(head.as_bytes()).await.is_err() {
                    obs.lock().unwrap().error = Some("write failed".into());
                    return;
                }
                if !body.is_empty() {
                    let _ = stream.write_all(&body).await;
                }
                let _ = stream.flush().await;
                let declared: Option<u64> = headers
                    .iter()
                    .find(|(k, _)| k == "content-length")
                    .and_then(|(_, v)| v.parse().ok());
                let partial = declared.map(|d| (body.len() as u64) < d).unwrap_or(false);
                let head_result = if partial {
                    match tokio::time::timeout(Duration::from_secs(5), io_read_head(&mut stream)).await {
                        Ok(r) => r,
                        Err(_) => {
                            obs.lock().unwrap().waiting_for_body = true;
                            return;
                        }
                    }
                } else {
                    io_read_head(&mut stream).await
                };
                match head_result {
                    Ok((h, rest)) => {
                        let mut o = obs.lock().unwrap();
                        o.status = Some(h.status);
                        o.body_len = rest.len() as u64;
                        o.body_nonzero = rest.iter().any(|b| *b != 0);
                        if keep_body {
                            o.body = rest;
                        }
                    }
                    Err((e, _)) => {
                        obs.lock().unwrap().error = Some(e);
                        return;
                    }
                }
                if keep_body {
                    // reverse proxy: bytes flow until somebody closes; the client sends a
                    // little payload of its own, then ends
                    let up = pattern(plan.seed ^ 0x32, 0, 64);
                    let _ = stream.write_all(&up).await;
                    let _ = stream.flush().await;
                    let want = plan.payload_len as u64;
                    let mut tmp = vec![0u8; 16 * 1024];
                    use tokio::io::AsyncReadExt;
                    loop {
                        if obs.lock().unwrap().body.len() as u64 >= want {
                            break;
                        }
                        match stream.read(&mut tmp).await {
                            Ok(0) => break,
                            Ok(n) => {
                                let mut o = obs.lock().unwrap();
                                o.body.extend_from_slice(&tmp[..n]);
                                o.body_len += n as u64;
                            }
                            Err(_) => break,
                        }
                    }
                    let _ = stream.shutdown().await;
                    obs.lock().unwrap().end_clean = Some(true);
                } else {
                    let mut sink = Vec::new();
                    let mut count = 0u64;
                    let clean = io_read_to_end(&mut stream, &mut sink, true, &mut count).await;
                    let mut o = obs.lock().unwrap();
                    o.body_len += count;
                    o.body_nonzero |= sink.iter().any(|b| *b != 0);
                    o.end_clean = Some(clean);
                }
            }
        }
    };
    let _ = tokio::time::timeout(Duration::from_secs(600), client).await;
    tokio::time::sleep(Duration::from_secs(1)).await;
    {
        let mut o = obs.lock().unwrap();
        if listening.task.is_finished() {
            o.listen_ended = Some("Core::listen() returned".into());
        }
        world::with(|w| {
            o.connects = w.connect_attempts.iter().map(|c| c.addr).collect();
            o.dns = w.dns_queries.iter().map(|q| q.name.clone()).collect();
        });
    }
    listening.task.abort();
    origin_task.abort();
    let o = obs.lock().unwrap().clone();
    o
}

fn expected_protocol(plan: &SPlan, channel_rp: bool) -> Option<&'static str> {
    // most preferred of offered ∩ enabled ∩ permitted (h2 is not permitted on the reverse proxy)
    let offers = |p: &str| plan.alpn.iter().any(|a| a == p);
    if plan.alpn.is_empty() {
        return if plan.h1 { Some("http/1.1") } else { None };
    }
    if offers("h2") && plan.h2 && !channel_rp {
        return Some("h2");
    }
    if offers("http/1.1") && plan.h1 {
        return Some("http/1.1");
    }
    None
}

fn judge(plan: &SPlan, o: &Obs, out: &mut Outcome) {
    if let Some(e) = &o.setup_error {
        out.violate("HARNESS", "services-setup", e.clone());
        return;
    }
    let svc = match &plan.svc {
        Svc::PingHost => "ping-host",
        Svc::PingMarker(_) => "ping-marker",
        Svc::Download(..) => "download",
        Svc::Upload(..) => "upload",
        Svc::SpeedOther(..) => "speed-other",
        Svc::ReverseProxy(false) => "rp-sni",
        Svc::ReverseProxy(true) => "rp-path",
    };
    if let Some(e) = &o.listen_ended {
        out.violate("C09", "services:listen-returned", e.clone());
    }
    let is_rp = matches!(plan.svc, Svc::ReverseProxy(_));
    let rp_sni = plan.svc == Svc::ReverseProxy(false);
    let want_proto = expected_protocol(plan, rp_sni);
    let proto = o.negotiated.clone().unwrap_or_else(|| "none".into());
    out.cell(format!("{}:h1={}:h2={}:alpn={}:got={}", svc, plan.h1, plan.h2, plan.alpn.join("+"), proto));
    if o.tls_error.is_some() {
        // no protocol in common: refusal is right; otherwise the channel must be reachable
        if want_proto.is_some() {
            out.violate(
                "C18",
                format!("services:{}:handshake-refused", svc),
                format!("listener h1={} h2={}, client offers {:?}: {:?}", plan.h1, plan.h2, plan.alpn, o.tls_error),
            );
        }
        return;
    }
    // the reverse proxy by path needs HTTP/1.1 with Upgrade: on h2 the request is a tunnel request
    let rp_path_h2 = plan.svc == Svc::ReverseProxy(true) && proto == "h2";
    if rp_path_h2 {
        return;
    }
    out.nontrivial = true;
    // no client-chosen destination, no resolver
    let allowed: Vec<SocketAddr> = if is_rp { vec![origin(plan.origin_loopback)] } else { vec![] };
    for c in &o.connects {
        if !allowed.contains(c) {
            out.violate("C18", format!("services:{}:unexpected-connect", svc), format!("connect to {}", c));
        }
    }
    if !o.dns.is_empty() {
        out.violate("C18", format!("services:{}:resolver-used", svc), format!("{:?}", o.dns));
    }
    if o.waiting_for_body {
        // only an upload with a valid length may be kept waiting
        let ok = match &plan.svc {
            Svc::Upload(Some(cl), _, _) => cl.parse::<u64>().map(|l| l > 0 && l <= 120 * MB).unwrap_or(false),
            _ => false,
        };
        if !ok {
            out.violate(
                "C18",
                format!("services:{}:{}:no-verdict", svc, proto),
                format!("{:?}: neither refused nor answered", plan.svc),
            );
        }
        return;
    }
    let h2_bad_length = proto == "h2"
        && matches!(&plan.svc, Svc::Upload(Some(cl), _, _) if cl.parse::<u64>().is_err());
    let status = match o.status {
        Some(s) => s,
        None if h2_bad_length => return,
        None => {
            out.violate(
                "C18",
                format!("services:{}:{}:no-response", svc, proto),
                format!("no response: {:?} (credentials sent: {})", o.error, plan.with_credentials),
            );
            return;
        }
    };
    if status == 407 {
        out.violate("C18", format!("services:{}:credentials-required", svc), "answered 407".to_string());
        return;
    }
    match &plan.svc {
        Svc::PingHost | Svc::PingMarker(_) => {
            if status != 200 || o.body_len != 0 {
                out.violate(
                    "C18",
                    format!("services:{}:status-{}-body-{}", svc, status, o.body_len),
                    format!("ping answered {} with {} body bytes", status, o.body_len),
                );
            }
        }
        Svc::Download(n, _) => {
            let valid = n.parse::<u64>().ok().filter(|x| (1..=100).contains(x)).filter(|_| {
                // "01" and "+1" denote 1 to a parser of integers; the document says N
                true
            });
            let strict_text = n.chars().all(|c| c.is_ascii_digit()) && !n.starts_with('0');
            match valid {
                Some(v) if strict_text => {
                    if status != 200 || o.body_len != v * MB || o.end_clean != Some(true) {
                        out.violate(
                            "C18",
                            format!("services:download:{}:wrong-size", proto),
                            format!("GET /{}mb.bin: status {}, {} body bytes (expected {}), clean end {:?}", n, status, o.body_len, v * MB, o.end_clean),
                        );
                    }
                }
                Some(v) => {
                    // unusual spelling of a valid number: either refused or served exactly
                    if !(status == 400 || (status == 200 && o.body_len == v * MB)) {
                        out.violate(
                            "C18",
                            format!("services:download:{}:odd-spelling", proto),
                            format!("GET /{}mb.bin: status {}, {} bytes", n, status, o.body_len),
                        );
                    }
                }
                None => {
                    if status != 400 {
                        out.violate(
                            "C18",
                            format!("services:download:{}:invalid-n-status-{}", proto, status),
                            format!("GET /{}mb.bin answered {} with {} bytes", n, status, o.body_len),
                        );
                    }
                }
            }
        }
        Svc::Upload(cl, send, _) => {
            let l = cl.as_ref().and_then(|x| x.parse::<u64>().ok()).filter(|_| cl.as_ref().map(|x| x.chars().all(|c| c.is_ascii_digit())).unwrap_or(false));
            match l {
                Some(l) if l <= 120 * MB => {
                    if l as usize == *send {
                        // the whole body was sent: consumed, then 200
                        if l == 0 {
                            // nothing to consume: 200 or 400 (the code treats 0 as invalid)
                            if status != 200 && status != 400 {
                                out.violate("C18", format!("services:upload:{}:l0-status-{}", proto, status), String::new());
                            }
                        } else if status != 200 {
                            out.violate(
                                "C18",
                                format!("services:upload:{}:status-{}", proto, status),
                                format!("POST /upload.html with Content-Length {} fully sent answered {}", l, status),
                            );
                        }
                    } else if status == 400 {
                        out.violate(
                            "C18",
                            format!("services:upload:{}:valid-length-refused", proto),
                            format!("Content-Length {} (<= 120 MiB) answered 400", l),
                        );
                    }
                }
                Some(l) => {
                    if status != 400 {
                        out.violate(
                            "C18",
                            format!("services:upload:{}:oversize-status-{}", proto, status),
                            format!("Content-Length {} answered {}", l, status),
                        );
                    }
                }
                None if proto == "h2" && o.status.is_none() => {
                    // HTTP/2 itself rejects a malformed content-length (stream error)
                }
                None => {
                    if status != 400 {
                        out.violate(
                            "C18",
                            format!("services:upload:{}:bad-length-status-{}", proto, status),
                            format!("Content-Length {:?} answered {}", cl, status),
                        );
                    }
                }
            }
        }
        Svc::SpeedOther(m, p, _) => {
            if status != 400 {
                out.violate(
                    "C18",
                    format!("services:speed-other:{}:status-{}", proto, status),
                    format!("{} {} answered {}", m, p, status),
                );
            }
        }
        Svc::ReverseProxy(by_path) => {
            if !o.origin_connected {
                out.violate(
                    "C18",
                    format!(
                        "services:{}:origin-not-contacted:loopback={}:policy-on={}",
                        svc, plan.origin_loopback, !plan.allow_private
                    ),
                    format!("status {} error {:?}", status, o.error),
                );
                return;
            }
            let head = String::from_utf8_lossy(&o.origin_head).to_ascii_lowercase();
            if !head.contains("x-original-protocol: http1") {
                out.violate("C18", format!("services:{}:no-x-original-protocol", svc), head.clone());
            }
            if head.matches("x-original-protocol:").count() != 1 {
                out.violate(
                    "C18",
                    format!("services:{}:x-original-protocol-not-the-endpoint's-alone", svc),
                    format!("the client claimed {:?}; the origin was told: {}", plan.rp_claims_protocol, head),
                );
            }
            if !head.starts_with("get ") || !head.contains(" http/1.1\r\n") {
                out.violate("C18", format!("services:{}:not-http1-request", svc), head.clone());
            }
            // the target reaches the origin unchanged, query string included
            let want_target = format!("{}{}", if *by_path { "/rp/socket" } else { "/index.html" }, plan.rp_suffix);
            let raw = String::from_utf8_lossy(&o.origin_head).into_owned();
            let got_target = raw.split("\r\n").next().and_then(|l| l.split(' ').nth(1)).unwrap_or("").to_string();
            if got_target != want_target {
                out.violate(
                    "C18",
                    format!("services:{}:target-changed", svc),
                    format!("client asked for {:?}, the origin was asked for {:?}", want_target, got_target),
                );
            }
            if !head.contains("x-custom: kept, as it is\r\n") {
                out.violate("C18", format!("services:{}:header-lost", svc), head.clone());
            }
            let want_status = if *by_path { 101 } else { 200 };
            if status != want_status {
                out.violate("C18", format!("services:{}:status-{}", svc, status), format!("origin answered {}", want_status));
            }
            let payload = pattern(plan.seed ^ 0x31, 0, plan.payload_len);
            if o.body != payload {
                out.violate(
                    "C18",
                    format!("services:{}:payload-differs", svc),
                    format!("client received {} bytes, origin sent {}", o.body.len(), payload.len()),
                );
            }
            if proto != "h2" {
                let up = pattern(plan.seed ^ 0x32, 0, 64);
                if o.origin_rx != up {
                    out.violate(
                        "C18",
                        format!("services:{}:upstream-bytes-differ", svc),
                        format!("origin received {} bytes after the head, client sent {}", o.origin_rx.len(), up.len()),
                    );
                }
            }
        }
    }
}
