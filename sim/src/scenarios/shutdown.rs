//! C19: graceful shutdown. One `Shutdown` object shared by
//!   * bare participants registering through the door exactly as `Tunnel::listen` does
//!     (notification handler + completion guard under the lock), working, noticing the
//!     notification or not, and finishing at planned instants,
//!   * real sessions of the endpoint (HTTP/2 with 0-2 tunnels to echo hosts, HTTP/1.1 idle or
//!     with one tunnel) served by the real `Tunnel::listen`, and `Core::listen()` itself,
//!   * the application: `submit()` (once or twice) at a planned instant, `completion()` some
//!     time later, awaited the way shutdown.rs documents it.
//! Every order of registration / submission / termination / completion is reached by planning
//! the instants on the virtual clock. Oracle: everybody registered before the submission
//! notices it; sessions wind down (HTTP/2: streams in flight keep working and new ones are
//! refused, the connection ends once they are done; HTTP/1.1: closed); `completion()` returns
//! when the last registered participant is gone - not before, and not noticeably after.

use crate::actors::*;
use crate::endpoint::{self, EpConfig};
use crate::prng::Rng;
use crate::scenario::*;
use crate::sim::{self, Outcome};
use crate::world::{self, ConnectOutcome, EpFaults, HostPlan, PeerConn, PeerRead};
use bytes::Bytes;
use serde::{Deserialize, Serialize};
use serde_json::Value;
use std::net::SocketAddr;
use std::sync::{Arc, Mutex};
use std::time::Duration;

pub struct ShutdownScn;

const LISTEN: &str = "198.51.100.1:443";

#[derive(Clone, Debug, Serialize, Deserialize)]
pub struct PartP {
    pub register_at_us: u64,
    /// None: works until notified
    pub work_us: Option<u64>,
    /// how long winding down takes once notified
    pub graceful_us: u64,
    /// time between the registration and the first wait for the notification (a participant
    /// that sets itself up first: a submission may fall in between and must still reach it)
    #[serde(default)]
    pub setup_us: u64,
}

#[derive(Clone, Debug, Serialize, Deserialize)]
pub struct TunP {
    pub open_after_us: u64,
    /// the client ends the tunnel at this instant (absolute)
    pub end_at_us: u64,
    /// HTTP/1.1: the destination streams without end and the client reads at 2 MB/s, so that a
    /// download is in flight, under back-pressure, when the shutdown is submitted
    #[serde(default)]
    pub flood: bool,
}

#[derive(Clone, Debug, Serialize, Deserialize)]
pub struct SessP {
    pub h2: bool,
    pub open_at_us: u64,
    pub tunnels: Vec<TunP>,
    /// an idle session is closed by its client at this instant if it is still there
    pub client_closes_at_us: u64,
    /// HTTP/2: one more request (CONNECT _check) is sent this long after the submission
    /// (negative: before it). Around zero it races the GOAWAY: it may be served or refused,
    /// the session must wind down all the same
    #[serde(default = "default_late_offset")]
    pub late_offset_us: i64,
    /// HTTP/2: one-way latency between client and endpoint (0 = none): bytes are in flight
    #[serde(default)]
    pub latency_us: u64,
}

fn default_late_offset() -> i64 {
    5_000
}

#[derive(Clone, Debug, Serialize, Deserialize)]
pub struct SPlan {
    pub seed: u64,
    pub parts: Vec<PartP>,
    pub sessions: Vec<SessP>,
    pub core_listens: bool,
    pub submit_at_us: u64,
    pub submit_twice: bool,
    pub completion_after_us: u64,
    /// a client whose session would start this long after completion() was called. The harness
    /// looks before it leaps: if the application still holds the lock, Tunnel::listen would
    /// block the thread for good, so the session is not started (unless `really`)
    #[serde(default)]
    pub late_session_after_us: Option<u64>,
    #[serde(default)]
    pub late_session_really: bool,
    /// idle connections to the ping / speedtest hosts through the real accept loop and TLS
    /// (only when Core::listen() runs): (speedtest?, offer h2?, opens at)
    #[serde(default)]
    pub service_sessions: Vec<(bool, bool, u64)>,
    /// per service session: an HTTP/1.1 speedtest connection downloads /100mb.bin at 4 MB/s
    /// instead of idling, so that a test is running when the shutdown is submitted
    #[serde(default)]
    pub service_busy: Vec<bool>,
}

impl Scenario for ShutdownScn {
    fn name(&self) -> &'static str {
        "shutdown"
    }

    fn budget(&self, tier: Tier) -> u64 {
        match tier {
            Tier::Quick => 60_000,
            Tier::Thorough => 6_000_000,
        }
    }

    fn generate(&self, seed: u64, index: u64, _tier: Tier) -> Value {
        let mut rng = Rng::new(seed).fork(&format!("shutdown{}", index));
        let submit_at_us = rng.size(5_000, 400_000);
        // instants cluster around the submission: before, at the same instant, just after
        let near = |rng: &mut Rng| -> u64 {
            match rng.below(8) {
                0 => submit_at_us,
                1 => submit_at_us.saturating_sub(1),
                2 => submit_at_us + 1,
                3 => submit_at_us + rng.size(1, 50_000),
                _ => rng.size(0, submit_at_us.max(1)),
            }
        };
        let completion_after_us = match rng.below(4) {
            0 => 0,
            1 => rng.size(1, 1_000),
            _ => rng.size(1, 200_000),
        };
        let n_parts = rng.usize_below(5);
        let parts = (0..n_parts)
            .map(|_| {
                let register_at_us = near(&mut rng);
                let late = register_at_us >= submit_at_us;
                PartP {
                    register_at_us,
                    // somebody who registers after the submission never hears of it: he must end by himself
                    work_us: if late || rng.chance(1, 3) { Some(rng.size(0, 300_000)) } else { None },
                    graceful_us: if rng.chance(1, 3) { 0 } else { rng.size(1, 100_000) },
                    setup_us: 0,
                }
            })
            .collect();
        let n_sess = rng.usize_below(4);
        let sessions = (0..n_sess)
            .map(|_| {
                let open_at_us = near(&mut rng);
                let h2 = rng.chance(2, 3);
                let n_tun = if h2 { rng.usize_below(3) } else { rng.usize_below(2) };
                SessP {
                    h2,
                    open_at_us,
                    tunnels: (0..n_tun)
                        .map(|_| TunP {
                            open_after_us: rng.size(0, 20_000),
                            end_at_us: match rng.below(4) {
                                0 => rng.size(open_at_us, submit_at_us.max(open_at_us + 1)),
                                _ => submit_at_us + rng.size(1, 300_000),
                            },
                            flood: !h2 && rng.chance(1, 3),
                        })
                        .collect(),
                    client_closes_at_us: submit_at_us + completion_after_us + rng.size(1_000, 400_000),
                    late_offset_us: if rng.chance(1, 2) { 5_000 } else { *rng.pick(&[0i64, 0, -300, 300, 700, 1_000, -1_000, 2_000, -2_000, 2_900, -2_900]) },
                    latency_us: if h2 && rng.chance(1, 2) { *rng.pick(&[1_000u64, 3_000]) } else { 0 },
                }
            })
            .collect();
        let plan = SPlan {
            seed: rng.next_u64(),
            parts,
            sessions,
            core_listens: rng.chance(2, 3),
            submit_at_us,
            submit_twice: rng.chance(1, 5),
            completion_after_us,
            late_session_after_us: if rng.chance(1, 6) { Some(rng.size(0, 100_000)) } else { None },
            late_session_really: false,
            service_sessions: (0..if rng.chance(1, 3) { 1 + rng.usize_below(2) } else { 0 })
                .map(|_| (rng.chance(1, 2), rng.chance(1, 2), near(&mut rng)))
                .collect(),
            service_busy: Vec::new(),
        };
        let mut plan = plan;
        plan.service_busy = plan.service_sessions.iter().map(|(speed, h2, _)| *speed && !*h2 && rng.chance(1, 2)).collect();
        // drawn last, so that plans of earlier generations keep their other dimensions
        for p in plan.parts.iter_mut() {
            if p.register_at_us < submit_at_us && rng.chance(1, 2) {
                // half of them straddle the submission
                p.setup_us = if rng.chance(1, 2) { (submit_at_us - p.register_at_us) + rng.size(0, 20_000) } else { rng.size(1, 50_000) };
            }
        }
        to_plan(&plan)
    }

    fn execute(&self, plan: &Value) -> Outcome {
        let plan: SPlan = match from_plan(plan) {
            Ok(p) => p,
            Err(e) => return harness_error(e),
        };
        let p2 = plan.clone();
        let (obs, rep) = sim::run(plan.seed, Duration::from_secs(3600), move || run(p2));
        let mut out = Outcome::default();
        match obs {
            Some(obs) => judge(&plan, &obs, &mut out),
            None => {
                if !rep.main_panicked {
                    out.inconclusive = true;
                }
            }
        }
        sim::finish(out, &rep)
    }
}

#[derive(Debug, Default, Clone)]
pub struct PartObs {
    pub registered_at: Option<u64>,
    pub had_guard: bool,
    pub notified_at: Option<u64>,
    pub notify_error: Option<String>,
    pub finished_at: Option<u64>,
}

#[derive(Debug, Default, Clone)]
pub struct TunObs {
    pub opened_at: Option<u64>,
    pub status: Option<u16>,
    pub error: Option<String>,
    /// echo round trips that succeeded, with their instants
    pub echoes: Vec<u64>,
    pub echo_failed_at: Option<u64>,
    pub ended_at: Option<u64>,
}

#[derive(Debug, Default, Clone)]
pub struct SessObs {
    pub opened_at: Option<u64>,
    pub tunnels: Vec<TunObs>,
    /// a new request after the submission: Some(status) / error text
    pub late_request: Option<Result<u16, String>>,
    /// how the client's HTTP/2 connection ended (Ok = cleanly)
    pub h2_end: Option<Result<(), String>>,
    pub closed_by_endpoint_at: Option<u64>,
    pub client_closed_at: Option<u64>,
    pub serve_task_done_at: Option<u64>,
}

#[derive(Debug, Default, Clone)]
pub struct Obs {
    pub setup_error: Option<String>,
    pub parts: Vec<PartObs>,
    pub sessions: Vec<SessObs>,
    pub submitted_at: u64,
    pub completion_called_at: u64,
    pub completion_returned_at: Option<u64>,
    pub core_listen_returned_at: Option<u64>,
    pub core_listen_result: Option<Result<(), String>>,
    pub census_end: world::Census,
    pub end: u64,
    /// the late client found the lock taken (completion() being awaited) / free
    pub late_found_lock_held: Option<bool>,
    /// per service session: (TLS established at, endpoint closed the connection at, error)
    pub services: Vec<(Option<u64>, Option<u64>, Option<String>)>,
}

type Sh<T> = Arc<Mutex<T>>;

async fn sleep_until_us(t: u64) {
    let now = world::now_us();
    if t > now {
        sleep_us(t - now).await;
    }
}

fn host_addr(s: usize, t: usize) -> SocketAddr {
    format!("93.184.{}.{}:443", 10 + s, 10 + t).parse().unwrap()
}

/// One echo round trip through an HTTP/2 tunnel
async fn h2_echo(tx: &mut h2::SendStream<Bytes>, body: &mut h2::RecvStream, tag: u64) -> bool {
    let data = pattern(tag, 0, 64);
    tx.reserve_capacity(data.len());
    match std::future::poll_fn(|cx| tx.poll_capacity(cx)).await {
        Some(Ok(n)) if n >= data.len() => {}
        _ => return false,
    }
    if tx.send_data(Bytes::from(data.clone()), false).is_err() {
        return false;
    }
    let mut got = Vec::new();
    while got.len() < data.len() {
        match tokio::time::timeout(Duration::from_millis(20), body.data()).await {
            Ok(Some(Ok(d))) => {
                let _ = body.flow_control().release_capacity(d.len());
                got.extend_from_slice(&d);
            }
            _ => return false,
        }
    }
    got == data
}

async fn run(plan: SPlan) -> Obs {
    let obs: Sh<Obs> = Arc::new(Mutex::new(Obs::default()));
    let cfg = EpConfig {
        listen: LISTEN.parse().unwrap(),
        speedtest: true,
        ping_hosts: vec![endpoint::HostCfg { hostname: "ping.example".into(), cert: 1, allowed_sni: vec![] }],
        speed_hosts: vec![endpoint::HostCfg { hostname: "speed.example".into(), cert: 2, allowed_sni: vec![] }],
        ..EpConfig::default()
    };
    let ep = match endpoint::build(&cfg, endpoint::registry(&cfg)) {
        Ok(e) => e,
        Err(e) => {
            obs.lock().unwrap().setup_error = Some(e);
            return obs.lock().unwrap().clone();
        }
    };
    {
        let mut o = obs.lock().unwrap();
        o.parts = vec![PartObs::default(); plan.parts.len()];
        o.services = vec![(None, None, None); plan.service_sessions.len()];
        o.sessions = plan.sessions.iter().map(|s| SessObs { tunnels: vec![TunObs::default(); s.tunnels.len()], ..SessObs::default() }).collect();
    }
    world::with(|w| {
        for (s, sp) in plan.sessions.iter().enumerate() {
            for t in 0..sp.tunnels.len() {
                w.hosts.insert(host_addr(s, t), HostPlan { outcome: ConnectOutcome::Ok, ..HostPlan::default() });
            }
        }
    });
    // echo hosts (and hosts that stream without end)
    let flooding: Vec<SocketAddr> = plan
        .sessions
        .iter()
        .enumerate()
        .flat_map(|(s, sp)| sp.tunnels.iter().enumerate().filter(|(_, t)| t.flood && !sp.h2).map(move |(t, _)| host_addr(s, t)))
        .collect();
    let hosts = tokio::spawn(async move {
        loop {
            let (addr, c) = world::next_established().await;
            if flooding.contains(&addr) {
                tokio::spawn(async move {
                    let chunk = vec![0x6du8; 4096];
                    while c.write_all(&chunk).await.is_ok() {}
                });
                continue;
            }
            tokio::spawn(async move {
                loop {
                    match c.read(64 * 1024).await {
                        PeerRead::Data(d) => {
                            if c.write_all(&d).await.is_err() {
                                break;
                            }
                        }
                        _ => break,
                    }
                }
                c.shutdown_write();
            });
        }
    });

    let mut tasks: Vec<tokio::task::JoinHandle<()>> = Vec::new();

    // Core::listen as a participant of its own
    let core_task = if plan.core_listens {
        let core = ep.core.clone();
        let o = obs.clone();
        Some(tokio::spawn(async move {
            let r = core.listen().await;
            let mut g = o.lock().unwrap();
            g.core_listen_returned_at = Some(world::now_us());
            g.core_listen_result = Some(r.map_err(|e| e.to_string()));
        }))
    } else {
        None
    };

    // bare participants
    for (k, p) in plan.parts.iter().cloned().enumerate() {
        let o = obs.clone();
        let shutdown = ep.shutdown.clone();
        tasks.push(tokio::spawn(async move {
            sleep_until_us(p.register_at_us).await;
            let mut me = {
                // exactly what Tunnel::listen does; if the application holds the lock (it is
                // awaiting completion) this blocks the thread, so look before leaping
                let g = match shutdown.try_lock() {
                    Ok(g) => g,
                    Err(_) => {
                        o.lock().unwrap().parts[k].notify_error = Some("lock held by the application".into());
                        return;
                    }
                };
                trusttunnel::verif::door::shutdown_register(&g)
            };
            {
                let mut g = o.lock().unwrap();
                g.parts[k].registered_at = Some(world::now_us());
                g.parts[k].had_guard = me.has_guard();
            }
            if p.setup_us > 0 {
                sleep_us(p.setup_us).await;
            }
            let work = async {
                match p.work_us {
                    Some(us) => sleep_us(us).await,
                    None => std::future::pending::<()>().await,
                }
            };
            tokio::select! {
                biased;
                x = me.wait() => {
                    {
                        let mut g = o.lock().unwrap();
                        match x {
                            Ok(()) => g.parts[k].notified_at = Some(world::now_us()),
                            Err(e) => g.parts[k].notify_error = Some(e),
                        }
                    }
                    sleep_us(p.graceful_us).await;
                }
                _ = work => {}
            }
            o.lock().unwrap().parts[k].finished_at = Some(world::now_us());
            drop(me);
        }));
    }

    // sessions
    for (s, sp) in plan.sessions.iter().cloned().enumerate() {
        let o = obs.clone();
        let core = ep.core.clone();
        let submit_at = plan.submit_at_us;
        let seed = plan.seed;
        tasks.push(tokio::spawn(async move {
            sleep_until_us(sp.open_at_us).await;
            let addr: SocketAddr = format!("203.0.113.{}:43000", 80 + s).parse().unwrap();
            let (stream, peer) = world::client_conn(addr, 1 << 20, 1 << 20, EpFaults::default());
            let serve = {
                let o = o.clone();
                let is_h2 = sp.h2;
                tokio::spawn(async move {
                    core.verif_serve_session(is_h2, stream, "vpn.example".into(), None).await;
                    o.lock().unwrap().sessions[s].serve_task_done_at = Some(world::now_us());
                })
            };
            o.lock().unwrap().sessions[s].opened_at = Some(world::now_us());
            if sp.h2 {
                session_h2(s, &sp, peer.clone(), submit_at, seed, o.clone()).await;
            } else {
                session_h1(s, &sp, peer.clone(), o.clone()).await;
            }
            {
                let mut g = o.lock().unwrap();
                g.sessions[s].closed_by_endpoint_at = peer.endpoint_closed_at();
                g.sessions[s].client_closed_at = Some(world::now_us());
            }
            peer.reset();
            let _ = tokio::time::timeout(Duration::from_secs(2), serve).await;
            let mut g = o.lock().unwrap();
            if g.sessions[s].closed_by_endpoint_at.is_none() {
                g.sessions[s].closed_by_endpoint_at = peer.endpoint_closed_at();
            }
        }));
    }

    // idle clients of the ping / speedtest hosts
    if plan.core_listens {
        for (k, (speed, h2, at)) in plan.service_sessions.iter().cloned().enumerate() {
            let busy = plan.service_busy.get(k).copied().unwrap_or(false) && speed && !h2;
            let o = obs.clone();
            let seed = plan.seed;
            let until = plan.submit_at_us + plan.completion_after_us + 500_000;
            tasks.push(tokio::spawn(async move {
                sleep_until_us(at).await;
                let params = crate::tls::TlsParams {
                    sni: Some(if speed { "speed.example".into() } else { "ping.example".into() }),
                    alpn: if h2 { vec![b"h2".to_vec(), b"http/1.1".to_vec()] } else { vec![b"http/1.1".to_vec()] },
                    seg: world::Cut::All,
                    max_fragment: None,
                    pace: None,
                };
                let client: SocketAddr = format!("203.0.113.{}:44000", 120 + k).parse().unwrap();
                match crate::patht::connect_tls(LISTEN.parse().unwrap(), client, params, Rng::new(seed ^ 0x5e ^ k as u64)).await {
                    Ok((mut tls, conn)) => {
                        o.lock().unwrap().services[k].0 = Some(world::now_us());
                        if busy {
                            use tokio::io::{AsyncReadExt, AsyncWriteExt};
                            let _ = tls.stream.write_all(b"GET /100mb.bin HTTP/1.1\r\nHost: speed.example\r\n\r\n").await;
                            let mut buf = vec![0u8; 4096];
                            while world::now_us() < until {
                                match tokio::time::timeout(Duration::from_millis(5), tls.stream.read(&mut buf)).await {
                                    Ok(Ok(0)) | Ok(Err(_)) => break,
                                    Ok(Ok(_)) => sleep_us(1_000).await,
                                    Err(_) => {
                                        if conn.endpoint_closed_at().is_some() {
                                            break;
                                        }
                                    }
                                }
                            }
                        }
                        // stay idle until the endpoint ends the connection
                        while world::now_us() < until && conn.endpoint_closed_at().is_none() {
                            sleep_us(500).await;
                        }
                        o.lock().unwrap().services[k].1 = conn.endpoint_closed_at();
                        drop(tls);
                        conn.reset();
                    }
                    Err(e) => o.lock().unwrap().services[k].2 = Some(e),
                }
            }));
        }
    }

    // the late client
    if let Some(after) = plan.late_session_after_us {
        let o = obs.clone();
        let core = ep.core.clone();
        let shutdown = ep.shutdown.clone();
        let at = plan.submit_at_us + plan.completion_after_us + after;
        let really = plan.late_session_really;
        tasks.push(tokio::spawn(async move {
            sleep_until_us(at + 1_000).await;
            let held = shutdown.try_lock().is_err();
            o.lock().unwrap().late_found_lock_held = Some(held);
            if held && !really {
                return;
            }
            let (stream, peer) = world::client_conn("203.0.113.99:43000".parse().unwrap(), 1 << 16, 1 << 16, EpFaults::default());
            let serve = tokio::spawn(async move { core.verif_serve_session(false, stream, "vpn.example".into(), None).await });
            sleep_us(20_000).await;
            peer.reset();
            let _ = tokio::time::timeout(Duration::from_secs(2), serve).await;
        }));
    }

    // the application
    sleep_until_us(plan.submit_at_us).await;
    obs.lock().unwrap().submitted_at = world::now_us();
    ep.shutdown.lock().unwrap().submit();
    if plan.submit_twice {
        ep.shutdown.lock().unwrap().submit();
    }
    sleep_us(plan.completion_after_us).await;
    obs.lock().unwrap().completion_called_at = world::now_us();
    {
        // the documented way (shutdown.rs, endpoint/src/main.rs)
        let completion = ep.shutdown.lock().unwrap().completion();
        let waited = tokio::time::timeout(Duration::from_secs(30), completion).await;
        if waited.is_ok() {
            obs.lock().unwrap().completion_returned_at = Some(world::now_us());
        }
    }
    // let everything else play out
    for t in tasks {
        let _ = tokio::time::timeout(Duration::from_secs(5), t).await;
    }
    if let Some(t) = core_task {
        if !t.is_finished() {
            t.abort();
        }
        let _ = t.await;
    }
    hosts.abort();
    sleep_us(100_000).await;
    let mut g = obs.lock().unwrap();
    g.census_end = world::with(|w| w.census.clone());
    g.end = world::now_us();
    g.clone()
}

async fn session_h2(s: usize, sp: &SessP, peer: PeerConn, submit_at: u64, seed: u64, o: Sh<Obs>) {
    let params = H2Params { initial_window: 1 << 20, conn_window: 4 << 20, ..Default::default() };
    let connected = if sp.latency_us > 0 {
        let io = crate::world::PeerIo { conn: peer.clone(), seg: crate::world::Cut::All, rng: Rng::new(seed ^ s as u64), pace: None };
        crate::actors::h2_connect_io(crate::actors::with_latency(io, sp.latency_us, sp.latency_us), params).await
    } else {
        h2_connect(peer.clone(), params, Rng::new(seed ^ s as u64)).await
    };
    let c = match connected {
        Ok(c) => c,
        Err(e) => {
            o.lock().unwrap().sessions[s].h2_end = Some(Err(e));
            return;
        }
    };
    let send = c.send;
    let mut tun_tasks = Vec::new();
    for (t, tp) in sp.tunnels.iter().cloned().enumerate() {
        let mut send = send.clone();
        let o = o.clone();
        tun_tasks.push(tokio::spawn(async move {
            sleep_us(tp.open_after_us).await;
            let req = http::Request::builder()
                .method("CONNECT")
                .uri(host_addr(s, t).to_string())
                .header("proxy-authorization", basic_auth("u0", "p0-secret-password"))
                .body(())
                .unwrap();
            if std::future::poll_fn(|cx| send.poll_ready(cx)).await.is_err() {
                o.lock().unwrap().sessions[s].tunnels[t].error = Some("session not ready".into());
                return;
            }
            let (resp, mut tx) = match send.send_request(req, false) {
                Ok(x) => x,
                Err(e) => {
                    o.lock().unwrap().sessions[s].tunnels[t].error = Some(e.to_string());
                    return;
                }
            };
            let resp = match resp.await {
                Ok(r) => r,
                Err(e) => {
                    o.lock().unwrap().sessions[s].tunnels[t].error = Some(e.to_string());
                    return;
                }
            };
            {
                let mut g = o.lock().unwrap();
                g.sessions[s].tunnels[t].status = Some(resp.status().as_u16());
                g.sessions[s].tunnels[t].opened_at = Some(world::now_us());
            }
            if resp.status() != 200 {
                return;
            }
            let mut body = resp.into_body();
            // an echo now, one shortly after the submission, one shortly before the end
            let mut instants = vec![world::now_us() + 100, submit_at + 3_000, tp.end_at_us.saturating_sub(2_000)];
            instants.retain(|t| *t + 1_000 < tp.end_at_us);
            instants.sort();
            for (n, at) in instants.into_iter().enumerate() {
                sleep_until_us(at).await;
                let ok = h2_echo(&mut tx, &mut body, (s * 100 + t * 10 + n) as u64).await;
                let mut g = o.lock().unwrap();
                if ok {
                    g.sessions[s].tunnels[t].echoes.push(world::now_us());
                } else {
                    g.sessions[s].tunnels[t].echo_failed_at = Some(world::now_us());
                    break;
                }
            }
            sleep_until_us(tp.end_at_us).await;
            let _ = tx.send_data(Bytes::new(), true);
            // the host echoes the end of stream
            let _ = tokio::time::timeout(Duration::from_millis(50), async { while let Some(Ok(_)) = body.data().await {} }).await;
            o.lock().unwrap().sessions[s].tunnels[t].ended_at = Some(world::now_us());
        }));
    }
    // a request that arrives after the submission on a session that is still there
    let late = {
        let mut send = send.clone();
        let o = o.clone();
        let racing = sp.late_offset_us != 5_000;
        // (a racing request is also sent on an idle session)
        let has_tunnel_open_then = (racing || sp.tunnels.iter().any(|t| t.end_at_us > submit_at + 6_000)) && sp.open_at_us + 25_000 < submit_at;
        let at = (submit_at as i64 + sp.late_offset_us).max(0) as u64;
        tokio::spawn(async move {
            if !has_tunnel_open_then {
                return;
            }
            sleep_until_us(at).await;
            let req = http::Request::builder()
                .method("CONNECT")
                .uri("_check")
                .header("proxy-authorization", basic_auth("u0", "p0-secret-password"))
                .body(())
                .unwrap();
            let r = async {
                std::future::poll_fn(|cx| send.poll_ready(cx)).await.map_err(|e| e.to_string())?;
                let (resp, _tx) = send.send_request(req, true).map_err(|e| e.to_string())?;
                resp.await.map(|r| r.status().as_u16()).map_err(|e| e.to_string())
            }
            .await;
            o.lock().unwrap().sessions[s].late_request = Some(r);
        })
    };
    drop(send);
    for t in tun_tasks {
        let _ = t.await;
    }
    let _ = late.await;
    // an idle session stays until the endpoint ends it or its client gives up
    let end = tokio::time::timeout(Duration::from_micros(sp.client_closes_at_us.saturating_sub(world::now_us()).max(1)), c.driver).await;
    o.lock().unwrap().sessions[s].h2_end = match end {
        Ok(Ok(r)) => Some(r),
        Ok(Err(e)) => Some(Err(format!("driver task: {}", e))),
        Err(_) => None,
    };
}

async fn session_h1(s: usize, sp: &SessP, peer: PeerConn, o: Sh<Obs>) {
    if let Some(tp) = sp.tunnels.first().cloned() {
        sleep_us(tp.open_after_us).await;
        let head = format!(
            "CONNECT {} HTTP/1.1\r\nHost: x\r\nProxy-Authorization: {}\r\n\r\n",
            host_addr(s, 0),
            basic_auth("u0", "p0-secret-password")
        );
        let _ = peer.write_all(head.as_bytes()).await;
        match h1_read_head(&peer).await {
            H1ReadHead::Head(h, _) => {
                let mut g = o.lock().unwrap();
                g.sessions[s].tunnels[0].status = Some(h.status);
                g.sessions[s].tunnels[0].opened_at = Some(world::now_us());
            }
            _ => {
                o.lock().unwrap().sessions[s].tunnels[0].error = Some("no response".into());
                return;
            }
        }
        if tp.flood {
            // a slow reader: 1 KiB every 500 us until the endpoint (or the plan) ends it
            let wait = tp.end_at_us.saturating_sub(world::now_us()).max(1);
            let _ = tokio::time::timeout(Duration::from_micros(wait), async {
                loop {
                    match peer.read(1024).await {
                        PeerRead::Data(_) => sleep_us(500).await,
                        _ => break,
                    }
                }
            })
            .await;
            o.lock().unwrap().sessions[s].tunnels[0].ended_at = Some(world::now_us());
            return;
        }
        // one echo, then wait for whoever ends the connection first
        let data = pattern(s as u64, 0, 64);
        let _ = peer.write_all(&data).await;
        let mut got = Vec::new();
        while got.len() < data.len() {
            match tokio::time::timeout(Duration::from_millis(20), peer.read(4096)).await {
                Ok(PeerRead::Data(d)) => got.extend_from_slice(&d),
                _ => break,
            }
        }
        if got == data {
            o.lock().unwrap().sessions[s].tunnels[0].echoes.push(world::now_us());
        } else {
            o.lock().unwrap().sessions[s].tunnels[0].echo_failed_at = Some(world::now_us());
        }
        let wait = tp.end_at_us.saturating_sub(world::now_us()).max(1);
        let _ = tokio::time::timeout(Duration::from_micros(wait), async {
            loop {
                match peer.read(4096).await {
                    PeerRead::Data(_) => continue,
                    _ => break,
                }
            }
        })
        .await;
        o.lock().unwrap().sessions[s].tunnels[0].ended_at = Some(world::now_us());
    } else {
        let wait = sp.client_closes_at_us.saturating_sub(world::now_us()).max(1);
        let _ = tokio::time::timeout(Duration::from_micros(wait), async {
            loop {
                match peer.read(4096).await {
                    PeerRead::Data(_) => continue,
                    _ => break,
                }
            }
        })
        .await;
    }
}

fn judge(plan: &SPlan, o: &Obs, out: &mut Outcome) {
    if let Some(e) = &o.setup_error {
        out.violate("HARNESS", "shutdown-setup", e.clone());
        return;
    }
    out.nontrivial = true;
    let ts = o.submitted_at;
    let tc = o.completion_called_at;
    let eps = 2_000u64;
    out.cell(format!(
        "shutdown:parts{}:sessions{}:core{}:twice{}:gap{}",
        plan.parts.len().min(3),
        plan.sessions.len().min(3),
        plan.core_listens as u8,
        plan.submit_twice as u8,
        match plan.completion_after_us {
            0 => "0",
            1..=1000 => "small",
            _ => "large",
        }
    ));

    // ---- who has to be waited for, and until when ---------------------------------------
    let mut last_finish = tc;
    let mut who = "completion call".to_string();
    let mut unbounded = false;
    // participants whose registration ties with the completion call: they may or may not count
    let mut tie_finish = 0u64;

    for (k, (p, po)) in plan.parts.iter().zip(&o.parts).enumerate() {
        let Some(reg) = po.registered_at else {
            out.cell("shutdown:part:registration-blocked-by-application-lock");
            continue;
        };
        let before_submit = reg < ts;
        out.cell(format!("shutdown:part:{}", if before_submit { "before-submit" } else if reg < tc || (reg == tc && po.had_guard) { "between" } else { "after-completion-call" }));
        if let Some(e) = &po.notify_error {
            out.violate("C19", "shutdown:part:notification-error", format!("participant {}: {}", k, e));
        }
        if before_submit {
            let waits_from = reg + p.setup_us;
            let worked_until = p.work_us.map(|w| waits_from + w);
            let should_notice = worked_until.map(|w| w > ts + eps).unwrap_or(true);
            if p.setup_us > 0 {
                out.cell(format!("shutdown:part:first-wait-{}-submission", if waits_from > ts { "after" } else { "before" }));
            }
            if should_notice && po.notified_at.is_none() {
                out.violate(
                    "C19",
                    format!("shutdown:part:not-notified{}{}", if plan.submit_twice { ":submitted-twice" } else { "" }, if waits_from > ts { ":first-wait-after-submission" } else { "" }),
                    format!("participant {} registered at {} (submission at {}), still working, never saw the notification", k, reg, ts),
                );
            }
            if let Some(n) = po.notified_at {
                if n + eps < ts {
                    out.violate("C19", "shutdown:part:notified-before-submission", format!("participant {} notified at {}, submission at {}", k, n, ts));
                }
                if n > ts.max(waits_from) + eps {
                    out.violate("C19", "shutdown:part:notified-late", format!("participant {} notified at {}, submission at {}, waiting from {}", k, n, ts, waits_from));
                }
            }
        } else if po.notified_at.is_some() && reg > ts {
            // harmless, but it cannot happen with a broadcast channel: flag the surprise
            out.cell("shutdown:part:late-registrant-notified");
        }
        if po.had_guard {
            match po.finished_at {
                Some(f) => {
                    if f > last_finish {
                        last_finish = f;
                        who = format!("participant {}", k);
                    }
                }
                None => unbounded = true,
            }
        } else if reg < tc {
            out.violate("C19", "shutdown:part:no-guard-before-completion", format!("participant {} registered at {} before completion was called at {} and got no guard", k, reg, tc));
        }
    }

    for (s, (sp, so)) in plan.sessions.iter().zip(&o.sessions).enumerate() {
        let Some(opened) = so.opened_at else { continue };
        let proto = if sp.h2 { "h2" } else { "h1" };
        let before_submit = opened < ts;
        out.cell(format!("shutdown:{}:{}:tunnels{}", proto, if before_submit { "before-submit" } else { "after-submit" }, sp.tunnels.len()));
        // when is the session over?
        let finished = so.serve_task_done_at;
        if opened < tc {
            match finished {
                Some(f) => {
                    if f > last_finish {
                        last_finish = f;
                        who = format!("session {}", s);
                    }
                }
                None => unbounded = true,
            }
        } else if opened == tc {
            // registered in the very millisecond completion() was called: with or without a guard
            match finished {
                Some(f) => tie_finish = tie_finish.max(f),
                None => unbounded = true,
            }
        }
        if !before_submit {
            continue;
        }
        // tunnels opened before the submission on HTTP/2 keep working until their client ends them
        let mut latest_end = ts;
        for (t, (tp, to)) in sp.tunnels.iter().zip(&so.tunnels).enumerate() {
            let open_time = opened + tp.open_after_us;
            if sp.h2 && to.status == Some(200) {
                latest_end = latest_end.max(tp.end_at_us);
            }
            if open_time + 5_000 >= ts {
                continue; // raced with the submission: either
            }
            if to.status != Some(200) {
                out.violate("C19", format!("shutdown:{}:tunnel-not-established", proto), format!("session {} tunnel {}: {:?}", s, t, to));
                continue;
            }
            if sp.h2 {
                latest_end = latest_end.max(tp.end_at_us);
                if let Some(f) = to.echo_failed_at {
                    out.violate(
                        "C19",
                        format!("shutdown:h2:tunnel-cut:{}", if f > ts { "after-submission" } else { "before-submission" }),
                        format!("session {} tunnel {} (to end at {}) stopped relaying at {} (submission at {})", s, t, tp.end_at_us, f, ts),
                    );
                }
            }
        }
        // the session itself must end: idle ones at the submission, busy HTTP/2 ones with their last stream
        // (what is in flight towards a client reading 2 MB/s - a queued chunk and the one in
        // hand, up to 64 KiB each - takes up to 70 ms more to flush before the close)
        let flooded = !sp.h2 && sp.tunnels.iter().any(|t| t.flood);
        let deadline = latest_end + 60_000 + if flooded { 100_000 } else { 0 };
        match so.closed_by_endpoint_at {
            Some(c) if c <= deadline => {
                if c + eps < ts && so.client_closed_at.map(|x| x > c).unwrap_or(true) && sp.tunnels.is_empty() {
                    out.violate("C19", format!("shutdown:{}:closed-before-submission", proto), format!("idle session {} closed at {}, submission at {}", s, c, ts));
                }
            }
            other => {
                out.violate(
                    "C19",
                    format!("shutdown:{}:session-not-wound-down", proto),
                    format!("session {} (opened {}, tunnels {:?}) should be over by {} (submission {}), endpoint closed it at {:?}, its client gave up at {:?}", s, opened, sp.tunnels, deadline, ts, other, so.client_closed_at),
                );
            }
        }
        if sp.h2 {
            if let Some(Err(e)) = &so.h2_end {
                out.violate("C19", "shutdown:h2:not-graceful", format!("session {}: the client's connection ended with an error instead of GOAWAY + close: {}", s, e));
            }
            if let Some(Ok(st)) = &so.late_request {
                // (a request sent within 3 ms of the submission may have been there first)
                if sp.late_offset_us >= 3_000 {
                    out.violate("C19", "shutdown:h2:new-request-served-after-submission", format!("session {}: a request sent {} us after the submission was answered {}", s, sp.late_offset_us, st));
                }
            }
        }
    }

    if plan.core_listens {
        for (k, ((speed, h2, _), (opened, closed, err))) in plan.service_sessions.iter().zip(&o.services).enumerate() {
            let kind = if *speed { "speedtest" } else { "ping" };
            let Some(opened) = opened else {
                // refused: only legitimate once the listener is gone
                out.cell(format!("shutdown:{}:not-established", kind));
                let _ = err;
                continue;
            };
            out.cell(format!("shutdown:{}:{}:{}", kind, if *h2 { "h2" } else { "h1" }, if *opened < ts { "before-submit" } else { "after-submit" }));
            if *opened + 25_000 >= ts {
                // raced with the submission or came later: no duty to notice, but it may hold a
                // guard until its client goes away, which only the client decides
                if *opened <= tc {
                    unbounded = true;
                }
                continue;
            }
            // (a download in flight towards a client reading 4 MB/s: the chunk in hand is
            // flushed before the close)
            let busy = plan.service_busy.get(k).copied().unwrap_or(false) && *speed && !*h2;
            match closed {
                Some(c) if *c + eps >= ts && *c <= ts + 60_000 + if busy { 100_000 } else { 0 } => {
                    if *c > last_finish {
                        last_finish = *c;
                        who = format!("{} session {}", kind, k);
                    }
                }
                other => out.violate(
                    "C19",
                    format!("shutdown:{}:session-not-wound-down", kind),
                    format!("idle {} connection {} (established {}) was closed at {:?}, submission at {}", kind, k, opened, other, ts),
                ),
            }
        }
        match o.core_listen_returned_at {
            Some(t) => {
                if t + eps < ts || t > ts + eps {
                    out.violate("C19", "shutdown:core-listen-returned-at-wrong-time", format!("Core::listen returned at {} (submission {}): {:?}", t, ts, o.core_listen_result));
                }
                if let Some(Err(e)) = &o.core_listen_result {
                    out.violate("C19", "shutdown:core-listen-error", e.clone());
                }
            }
            None => out.violate("C19", "shutdown:core-listen-did-not-return", format!("submission at {}", ts)),
        }
    }

    // ---- completion --------------------------------------------------------------------
    match o.completion_returned_at {
        None => {
            if !unbounded {
                out.violate(
                    "C19",
                    "shutdown:completion-hangs",
                    format!("everybody had finished by {} ({}), completion() called at {} had not returned 30 s later", last_finish, who, tc),
                );
            }
        }
        Some(r) => {
            if r + eps < last_finish {
                out.violate(
                    "C19",
                    "shutdown:completion-early",
                    format!("completion() returned at {}, {} finished at {}", r, who, last_finish),
                );
            }
            if !unbounded && r > last_finish.max(tie_finish) + eps {
                out.violate(
                    "C19",
                    "shutdown:completion-late",
                    format!("completion() returned at {}, the last to finish was {} at {}", r, who, last_finish),
                );
            }
        }
    }
    if o.late_found_lock_held == Some(true) {
        out.violate(
            "C19",
            "shutdown:registration-blocks-thread-while-completion-awaited",
            format!(
                "a session starting {} us after completion() was called finds the Shutdown mutex held by the application (shutdown.rs and main.rs await completion() with the lock taken): Tunnel::listen's lock() would block the executor thread until completion returns, which on this thread is never",
                plan.late_session_after_us.unwrap_or(0)
            ),
        );
    }
    if o.census_end.tcp_in_open != 0 || o.census_end.tcp_out_open != 0 {
        out.violate("C19", "shutdown:sockets-left", format!("{:?}", o.census_end));
    }
}
