//! C16: histories of session and tunnel life-cycles with transfers of known sizes, scraped
//! at quiescent points through the real metrics listener (`GET /metrics`), compared with a
//! conservation model; `/health-check` must answer 200.

use crate::actors::*;
use crate::endpoint::{self, EpConfig, FRACTION_US};
use crate::prng::Rng;
use crate::scenario::*;
use crate::sim::{self, Outcome};
use crate::world::{self, ConnectOutcome, EpFaults, HostPlan, PeerConn, PeerRead};
use bytes::Bytes;
use serde::{Deserialize, Serialize};
use serde_json::Value;
use std::collections::BTreeMap;
use std::net::SocketAddr;
use std::sync::{Arc, Mutex};
use std::time::Duration;

pub struct Metrics;

#[derive(Clone, Debug, Serialize, Deserialize, PartialEq)]
pub enum End {
    /// both sides end their directions
    Clean,
    HostReset,
    ClientAbort,
    /// stays open until its session goes
    KeepOpen,
    /// the destination ends its direction (FIN) and the client keeps its own open: the outbound
    /// socket lives on, half-closed, until the session goes
    KeepOpenHostFin,
    /// after the planned transfers the destination stops reading, the client uploads this
    /// many more bytes into the stalled tunnel, then the destination resets: only what the
    /// destination's socket accepted has been relayed
    StalledHostReset(usize),
}

#[derive(Clone, Debug, Serialize, Deserialize)]
pub enum Op {
    OpenSession { h2: bool },
    /// a tunnel on session `s` (index among the sessions opened so far)
    Tunnel { s: usize, up: usize, down: usize, end: End, connect_fails: bool },
    CloseSession { s: usize },
    Scrape,
    Health,
    BadPath,
    Wait { us: u64 },
}

#[derive(Clone, Debug, Serialize, Deserialize)]
pub struct MPlan {
    pub seed: u64,
    pub h1_enabled: bool,
    pub idle_timeout_us: u64,
    pub ops: Vec<Op>,
}

const LISTEN: &str = "198.51.100.1:443";
const METRICS: &str = "127.0.0.1:1987";

fn host(i: usize) -> SocketAddr {
    SocketAddr::new("93.184.217.1".parse().unwrap(), 2000 + i as u16)
}

impl Scenario for Metrics {
    fn name(&self) -> &'static str {
        "metrics"
    }

    fn budget(&self, tier: Tier) -> u64 {
        match tier {
            Tier::Quick => 30_000,
            Tier::Thorough => 2_500_000,
        }
    }

    fn generate(&self, seed: u64, index: u64, _tier: Tier) -> Value {
        let mut rng = Rng::new(seed).fork(&format!("metrics{}", index));
        let h1_enabled = !rng.chance(1, 6);
        let mut ops = Vec::new();
        let mut sessions: Vec<(bool, bool)> = Vec::new(); // (h2, open)
        let n = 3 + rng.usize_below(25);
        for _ in 0..n {
            let open: Vec<usize> = sessions.iter().enumerate().filter(|(_, s)| s.1).map(|(i, _)| i).collect();
            match rng.below(10) {
                0 | 1 if sessions.len() < 6 => {
                    let h2 = if h1_enabled { rng.chance(1, 2) } else { true };
                    sessions.push((h2, true));
                    ops.push(Op::OpenSession { h2 });
                }
                2..=5 if !open.is_empty() => {
                    let s = *rng.pick(&open);
                    let end = match rng.below(8) {
                        6 => End::StalledHostReset(rng.size(20_000, 300_000) as usize),
                        7 => End::KeepOpenHostFin,
                        0 => End::HostReset,
                        1 => End::ClientAbort,
                        2 => End::KeepOpen,
                        _ => End::Clean,
                    };
                    let connect_fails = rng.chance(1, 8);
                    ops.push(Op::Tunnel {
                        s,
                        up: rng.size(0, 64 * 1024) as usize,
                        down: rng.size(0, 64 * 1024) as usize,
                        end: end.clone(),
                        connect_fails,
                    });
                    if !sessions[s].0 {
                        // an HTTP/1.1 connection carries one request
                        if end != End::KeepOpen || connect_fails {
                            sessions[s].1 = false;
                        } else {
                            // stays open with its tunnel; no further tunnels on it
                            sessions[s].1 = false;
                            sessions[s] = (false, false);
                        }
                    }
                }
                6 if !open.is_empty() => {
                    let s = *rng.pick(&open);
                    sessions[s].1 = false;
                    ops.push(Op::CloseSession { s });
                }
                7 => ops.push(Op::Health),
                8 if rng.chance(1, 3) => ops.push(Op::BadPath),
                _ => ops.push(Op::Scrape),
            }
            if rng.chance(1, 6) {
                ops.push(Op::Wait { us: rng.size(1, 2_000_000) });
            }
        }
        ops.push(Op::Scrape);
        let plan = MPlan {
            seed: rng.next_u64(),
            h1_enabled,
            idle_timeout_us: 604_800_000_000 + FRACTION_US,
            ops,
        };
        to_plan(&plan)
    }

    fn execute(&self, plan: &Value) -> Outcome {
        let plan: MPlan = match from_plan(plan) {
            Ok(p) => p,
            Err(e) => return harness_error(e),
        };
        let p2 = plan.clone();
        let (obs, rep) = sim::run(plan.seed, Duration::from_secs(3600 * 24), move || run(p2));
        let mut out = Outcome::default();
        match obs {
            Some(obs) => judge(&plan, &obs, &mut out),
            None => {
                if !rep.main_panicked {
                    out.inconclusive = true;
                }
            }
        }
        sim::finish(out, &rep)
    }
}

#[derive(Debug, Clone, Default)]
pub struct Model {
    pub sessions_h1: i64,
    pub sessions_h2: i64,
    pub tcp: i64,
    pub up_h1: u64,
    pub up_h2: u64,
    pub down_h1: u64,
    pub down_h2: u64,
}

#[derive(Debug, Clone)]
pub struct ScrapeObs {
    pub op_index: usize,
    pub status: Option<u16>,
    pub text: String,
    pub error: Option<String>,
    pub model: Model,
    pub census_tcp_out: i64,
}

#[derive(Debug, Default, Clone)]
pub struct Obs {
    pub setup_error: Option<String>,
    pub scrapes: Vec<ScrapeObs>,
    pub health: Vec<Option<u16>>,
    pub bad_path: Vec<Option<u16>>,
    pub listen_ended: Option<String>,
    pub tunnel_problems: Vec<String>,
    pub final_scrape: Option<ScrapeObs>,
}

struct Session {
    h2: bool,
    peer: PeerConn,
    send: Option<h2::client::SendRequest<Bytes>>,
    open: bool,
    task: tokio::task::JoinHandle<()>,
    /// kept-open tunnels: (client handle keeps stream alive, host conn)
    kept: Vec<(Option<h2::SendStream<Bytes>>, Option<h2::RecvStream>, PeerConn)>,
    tunnels_open: i64,
}

/// A destination that ends its direction once the client's direction has ended
fn cooperative_host(hc: PeerConn) {
    tokio::spawn(async move {
        loop {
            match hc.read(1 << 20).await {
                PeerRead::Data(_) => {}
                _ => break,
            }
        }
        hc.shutdown_write();
    });
}

pub async fn http_get(path: &str) -> (Option<u16>, String, Option<String>) {
    let conn = match world::connect_to_listener(
        METRICS.parse().unwrap(),
        "127.0.0.1:50123".parse().unwrap(),
        1 << 20,
        1 << 20,
        EpFaults::default(),
    ) {
        Some(c) => c,
        None => return (None, String::new(), Some("metrics listener is not bound".into())),
    };
    let req = format!("GET {} HTTP/1.1\r\nHost: localhost\r\n\r\n", path);
    if conn.write_all(req.as_bytes()).await.is_err() {
        return (None, String::new(), Some("write failed".into()));
    }
    let r = tokio::time::timeout(Duration::from_secs(10), async {
        match h1_read_head(&conn).await {
            H1ReadHead::Head(h, mut rest) => {
                let cl: Option<usize> = h.header_str("content-length").and_then(|v| v.parse().ok());
                loop {
                    if let Some(n) = cl {
                        if rest.len() >= n {
                            break;
                        }
                    }
                    match conn.read(64 * 1024).await {
                        PeerRead::Data(d) => rest.extend_from_slice(&d),
                        _ => break,
                    }
                }
                (Some(h.status), String::from_utf8_lossy(&rest).into_owned(), None)
            }
            H1ReadHead::Closed(_, how) => (None, String::new(), Some(format!("closed without a response ({:?})", how))),
            H1ReadHead::Malformed(e, _) => (None, String::new(), Some(format!("malformed response: {}", e))),
        }
    })
    .await;
    conn.shutdown_write();
    conn.stop_reading();
    match r {
        Ok(x) => x,
        Err(_) => (None, String::new(), Some("no response within 10 s".into())),
    }
}

async fn run(plan: MPlan) -> Obs {
    let mut obs = Obs::default();
    let cfg = EpConfig {
        listen: LISTEN.parse().unwrap(),
        h1: plan.h1_enabled,
        h2: true,
        tcp_timeout_us: plan.idle_timeout_us,
        metrics: Some((METRICS.parse().unwrap(), 3_000_000 + FRACTION_US)),
        ..EpConfig::default()
    };
    let ep = match endpoint::build(&cfg, endpoint::registry(&cfg)) {
        Ok(e) => e,
        Err(e) => {
            obs.setup_error = Some(e);
            return obs;
        }
    };
    let listening = crate::patht::start(&ep, cfg.listen).await;
    for _ in 0..10 {
        tokio::task::yield_now().await;
    }
    let mut model = Model::default();
    let mut sessions: Vec<Session> = Vec::new();
    let mut host_no = 0usize;
    let rng = Rng::new(plan.seed);

    for (k, op) in plan.ops.iter().enumerate() {
        match op {
            Op::OpenSession { h2 } => {
                let (stream, peer) = world::client_conn(
                    SocketAddr::new("203.0.113.50".parse().unwrap(), 40_000 + k as u16),
                    1 << 20,
                    1 << 20,
                    EpFaults::default(),
                );
                let core = ep.core.clone();
                let is_h2 = *h2;
                let task = tokio::spawn(async move {
                    core.verif_serve_session(is_h2, stream, "vpn.example".into(), None).await
                });
                let mut send = None;
                if *h2 {
                    match h2_connect(peer.clone(), H2Params { initial_window: 1 << 20, conn_window: 8 << 20, ..Default::default() }, rng.fork("s")).await {
                        Ok(c) => send = Some(c.send),
                        Err(e) => obs.tunnel_problems.push(format!("op {}: {}", k, e)),
                    }
                }
                tokio::time::sleep(Duration::from_millis(5)).await;
                if *h2 {
                    model.sessions_h2 += 1;
                } else {
                    model.sessions_h1 += 1;
                }
                sessions.push(Session { h2: *h2, peer, send, open: true, task, kept: vec![], tunnels_open: 0 });
            }
            Op::Tunnel { s, up, down, end, connect_fails } => {
                let Some(sess) = sessions.get_mut(*s) else { continue };
                if !sess.open {
                    continue;
                }
                host_no += 1;
                let addr = host(host_no);
                world::with(|w| {
                    w.hosts.insert(
                        addr,
                        HostPlan {
                            outcome: if *connect_fails { ConnectOutcome::Refused } else { ConnectOutcome::Ok },
                            to_host_cap: if matches!(end, End::StalledHostReset(_)) { 8 * 1024 } else { 1 << 20 },
                            from_host_cap: 1 << 20,
                            ..HostPlan::default()
                        },
                    )
                });
                let upd = pattern(plan.seed ^ k as u64, 0, *up);
                let downd = pattern(plan.seed ^ 0xd0 ^ k as u64, 0, *down);
                if sess.h2 {
                    let Some(mut send) = sess.send.clone() else { continue };
                    let req = http::Request::builder()
                        .method("CONNECT")
                        .uri(addr.to_string())
                        .header("proxy-authorization", basic_auth("u0", "p0-secret-password"))
                        .body(())
                        .unwrap();
                    if std::future::poll_fn(|cx| send.poll_ready(cx)).await.is_err() {
                        obs.tunnel_problems.push(format!("op {}: session gone", k));
                        continue;
                    }
                    let Ok((resp, mut tx)) = send.send_request(req, false) else { continue };
                    let resp = match resp.await {
                        Ok(r) => r,
                        Err(e) => {
                            obs.tunnel_problems.push(format!("op {}: response {}", k, e));
                            continue;
                        }
                    };
                    if resp.status() != 200 {
                        if !*connect_fails {
                            obs.tunnel_problems.push(format!("op {}: status {}", k, resp.status()));
                        }
                        tokio::time::sleep(Duration::from_millis(50)).await;
                        continue;
                    }
                    let (_, hc) = world::next_established().await;
                    model.tcp += 1;
                    sess.tunnels_open += 1;
                    let mut body = resp.into_body();
                    // upload
                    tx.reserve_capacity(upd.len());
                    let _ = tx.send_data(Bytes::from(upd.clone()), false);
                    let mut got = 0;
                    while got < upd.len() {
                        match hc.read(1 << 20).await {
                            PeerRead::Data(d) => got += d.len(),
                            _ => break,
                        }
                    }
                    model.up_h2 += got as u64;
                    // download
                    let _ = hc.write_all(&downd).await;
                    let mut got = 0;
                    while got < downd.len() {
                        match body.data().await {
                            Some(Ok(d)) => {
                                got += d.len();
                                let _ = body.flow_control().release_capacity(d.len());
                            }
                            _ => break,
                        }
                    }
                    model.down_h2 += got as u64;
                    match end {
                        End::Clean => {
                            let _ = tx.send_data(Bytes::new(), true);
                            hc.shutdown_write();
                            while let Some(Ok(_)) = body.data().await {}
                            model.tcp -= 1;
                            sess.tunnels_open -= 1;
                        }
                        End::HostReset => {
                            hc.reset();
                            while let Some(Ok(_)) = body.data().await {}
                            model.tcp -= 1;
                            sess.tunnels_open -= 1;
                        }
                        End::StalledHostReset(extra) => {
                            let before = hc.totals().0;
                            let more = pattern(plan.seed ^ 0xe7 ^ k as u64, 0, *extra);
                            tx.reserve_capacity(more.len());
                            let mut off = 0;
                            while off < more.len() {
                                match tokio::time::timeout(Duration::from_millis(20), std::future::poll_fn(|cx| tx.poll_capacity(cx))).await {
                                    Ok(Some(Ok(n))) if n > 0 => {
                                        let n = n.min(more.len() - off);
                                        if tx.send_data(Bytes::copy_from_slice(&more[off..off + n]), false).is_err() {
                                            break;
                                        }
                                        off += n;
                                    }
                                    _ => break,
                                }
                            }
                            tokio::time::sleep(Duration::from_millis(100)).await;
                            model.up_h2 += hc.totals().0 - before;
                            hc.reset();
                            while let Some(Ok(_)) = body.data().await {}
                            model.tcp -= 1;
                            sess.tunnels_open -= 1;
                        }
                        End::ClientAbort => {
                            tx.send_reset(h2::Reason::CANCEL);
                            drop(body);
                            cooperative_host(hc.clone());
                            model.tcp -= 1;
                            sess.tunnels_open -= 1;
                        }
                        End::KeepOpen => {
                            cooperative_host(hc.clone());
                            sess.kept.push((Some(tx), Some(body), hc))
                        }
                        End::KeepOpenHostFin => {
                            hc.shutdown_write();
                            while let Some(Ok(_)) = body.data().await {}
                            cooperative_host(hc.clone());
                            sess.kept.push((Some(tx), Some(body), hc))
                        }
                    }
                } else {
                    let head = format!(
                        "CONNECT {a} HTTP/1.1\r\nHost: {a}\r\nProxy-Authorization: {p}\r\n\r\n",
                        a = addr,
                        p = basic_auth("u0", "p0-secret-password")
                    );
                    let peer = sess.peer.clone();
                    if peer.write_all(head.as_bytes()).await.is_err() {
                        continue;
                    }
                    let status = match h1_read_head(&peer).await {
                        H1ReadHead::Head(h, _) => h.status,
                        _ => 0,
                    };
                    if status != 200 {
                        if !*connect_fails {
                            obs.tunnel_problems.push(format!("op {}: h1 status {}", k, status));
                        }
                        // the connection is closed by the endpoint after a failed request
                        tokio::time::sleep(Duration::from_millis(50)).await;
                        sess.open = false;
                        model.sessions_h1 -= 1;
                        continue;
                    }
                    let (_, hc) = world::next_established().await;
                    model.tcp += 1;
                    let _ = peer.write_all(&upd).await;
                    let mut got = 0;
                    while got < upd.len() {
                        match hc.read(1 << 20).await {
                            PeerRead::Data(d) => got += d.len(),
                            _ => break,
                        }
                    }
                    model.up_h1 += got as u64;
                    let _ = hc.write_all(&downd).await;
                    let mut got = 0;
                    while got < downd.len() {
                        match peer.read(1 << 20).await {
                            PeerRead::Data(d) => got += d.len(),
                            _ => break,
                        }
                    }
                    model.down_h1 += got as u64;
                    match end {
                        End::KeepOpen => {
                            cooperative_host(hc.clone());
                            sess.kept.push((None, None, hc));
                            sess.tunnels_open += 1;
                            // no further requests on this connection
                        }

                        End::HostReset => {
                            hc.reset();
                            loop {
                                match peer.read(4096).await {
                                    PeerRead::Data(_) => {}
                                    _ => break,
                                }
                            }
                            model.tcp -= 1;
                            model.sessions_h1 -= 1;
                            sess.open = false;
                        }
                        End::ClientAbort => {
                            peer.reset();
                            cooperative_host(hc.clone());
                            model.tcp -= 1;
                            model.sessions_h1 -= 1;
                            sess.open = false;
                        }
                        End::StalledHostReset(extra) => {
                            let before = hc.totals().0;
                            let more = pattern(plan.seed ^ 0xe7 ^ k as u64, 0, *extra);
                            let _ = tokio::time::timeout(Duration::from_millis(100), peer.write_all(&more)).await;
                            tokio::time::sleep(Duration::from_millis(100)).await;
                            model.up_h1 += hc.totals().0 - before;
                            hc.reset();
                            loop {
                                match peer.read(4096).await {
                                    PeerRead::Data(_) => {}
                                    _ => break,
                                }
                            }
                            model.tcp -= 1;
                            model.sessions_h1 -= 1;
                            sess.open = false;
                        }
                        // (an HTTP/1.1 tunnel ends as a whole when the destination ends its
                        // direction: the response is over, the connection is closed)
                        End::Clean | End::KeepOpenHostFin => {
                            hc.shutdown_write();
                            loop {
                                match peer.read(4096).await {
                                    PeerRead::Data(_) => {}
                                    _ => break,
                                }
                            }
                            peer.shutdown_write();
                            model.tcp -= 1;
                            model.sessions_h1 -= 1;
                            sess.open = false;
                        }
                    }
                }
                tokio::time::sleep(Duration::from_millis(200)).await;
            }
            Op::CloseSession { s } => {
                let Some(sess) = sessions.get_mut(*s) else { continue };
                if !sess.open && sess.kept.is_empty() {
                    continue;
                }
                let was_counted = sess.open || !sess.kept.is_empty();
                sess.send = None;
                sess.kept.clear();
                sess.peer.shutdown_write();
                sess.peer.stop_reading();
                tokio::time::sleep(Duration::from_secs(1)).await;
                if was_counted {
                    if sess.h2 {
                        model.sessions_h2 -= 1;
                    } else if sess.open || sess.tunnels_open > 0 {
                        model.sessions_h1 -= 1;
                    }
                }
                model.tcp -= sess.tunnels_open;
                sess.tunnels_open = 0;
                sess.open = false;
            }
            Op::Scrape => {
                let (status, text, error) = http_get("/metrics").await;
                obs.scrapes.push(ScrapeObs {
                    op_index: k,
                    status,
                    text,
                    error,
                    model: model.clone(),
                    census_tcp_out: world::with(|w| w.census.tcp_out_open),
                });
            }
            Op::Health => {
                let (status, _, _) = http_get("/health-check").await;
                obs.health.push(status);
            }
            Op::BadPath => {
                let (status, _, _) = http_get("/nothing-here").await;
                obs.bad_path.push(status);
            }
            Op::Wait { us } => sleep_us(*us).await,
        }
    }
    // everybody leaves: all gauges return to zero
    for sess in sessions.iter_mut() {
        sess.send = None;
        sess.kept.clear();
        sess.peer.shutdown_write();
        sess.peer.stop_reading();
    }
    tokio::time::sleep(Duration::from_secs(3)).await;
    model.sessions_h1 = 0;
    model.sessions_h2 = 0;
    model.tcp = 0;
    let (status, text, error) = http_get("/metrics").await;
    obs.final_scrape = Some(ScrapeObs {
        op_index: plan.ops.len(),
        status,
        text,
        error,
        model: model.clone(),
        census_tcp_out: world::with(|w| w.census.tcp_out_open),
    });
    if listening.task.is_finished() {
        obs.listen_ended = Some("Core::listen() returned".into());
    }
    for s in &sessions {
        s.task.abort();
    }
    listening.task.abort();
    obs
}

/// Prometheus text format -> series ("name{labels}" -> value)
fn parse_metrics(text: &str) -> Result<BTreeMap<String, f64>, String> {
    let mut m = BTreeMap::new();
    for line in text.lines() {
        let line = line.trim();
        if line.is_empty() || line.starts_with('#') {
            continue;
        }
        let (k, v) = line.rsplit_once(' ').ok_or_else(|| format!("bad line {:?}", line))?;
        let v: f64 = v.parse().map_err(|_| format!("bad value in {:?}", line))?;
        m.insert(k.to_ascii_lowercase().replace(' ', ""), v);
    }
    Ok(m)
}

fn series(m: &BTreeMap<String, f64>, name: &str, proto: Option<&str>) -> Option<f64> {
    match proto {
        None => m.get(name).copied(),
        Some(p) => m.get(&format!("{}{{protocol_type=\"{}\"}}", name, p)).copied(),
    }
}

fn check_scrape(s: &ScrapeObs, last: bool, out: &mut Outcome) {
    let tag = if last { "final" } else { "mid" };
    if s.status != Some(200) {
        out.violate(
            "C16",
            format!("metrics:scrape-status-{:?}", s.status),
            format!("GET /metrics at op {}: status {:?} error {:?}", s.op_index, s.status, s.error),
        );
        return;
    }
    let m = match parse_metrics(&s.text) {
        Ok(m) => m,
        Err(e) => {
            out.violate("C16", "metrics:unparsable-text", e);
            return;
        }
    };
    let traffic_seen = s.model.up_h1 + s.model.up_h2 + s.model.down_h1 + s.model.down_h2 > 0;
    for name in ["outbound_tcp_sockets", "outbound_udp_sockets"] {
        if series(&m, name, None).is_none() {
            out.violate(
                "C16",
                format!("metrics:series-missing:{}", name),
                format!("GET /metrics does not export {} (exported: {:?})", name, m.keys().take(12).collect::<Vec<_>>()),
            );
            return;
        }
    }
    let want = [
        ("client_sessions", "http1", s.model.sessions_h1 as f64, s.model.sessions_h1 != 0),
        ("client_sessions", "http2", s.model.sessions_h2 as f64, s.model.sessions_h2 != 0),
        ("inbound_traffic_bytes", "http1", s.model.up_h1 as f64, s.model.up_h1 != 0),
        ("inbound_traffic_bytes", "http2", s.model.up_h2 as f64, s.model.up_h2 != 0),
        ("outbound_traffic_bytes", "http1", s.model.down_h1 as f64, s.model.down_h1 != 0),
        ("outbound_traffic_bytes", "http2", s.model.down_h2 as f64, s.model.down_h2 != 0),
    ];
    for (name, proto, v, must_exist) in want {
        // a labelled series that was never touched may be absent; absent means 0
        let got = series(&m, name, Some(proto));
        if got.is_none() && must_exist {
            out.violate(
                "C16",
                format!("metrics:series-missing:{}:{}", name, proto),
                format!("expected {}{{protocol_type={}}} = {}", name, proto, v),
            );
            continue;
        }
        let got = got.unwrap_or(0.0);
        if got != v {
            out.violate(
                "C16",
                format!("metrics:{}:{}:{}-differs", tag, name, proto),
                format!(
                    "at op {}: {}{{protocol_type={}}} = {}, model says {} (model {:?})",
                    s.op_index, name, proto, got, v, s.model
                ),
            );
        }
    }
    let tcp = series(&m, "outbound_tcp_sockets", None).unwrap_or(-1.0);
    if tcp != s.census_tcp_out as f64 || (last && tcp != 0.0) {
        out.violate(
            "C16",
            format!("metrics:{}:outbound_tcp_sockets-differs", tag),
            format!("at op {}: gauge {}, open outbound sockets {}, model {}", s.op_index, tcp, s.census_tcp_out, s.model.tcp),
        );
    }
    let _ = traffic_seen;
}

fn judge(plan: &MPlan, o: &Obs, out: &mut Outcome) {
    if let Some(e) = &o.setup_error {
        out.violate("HARNESS", "metrics-setup", e.clone());
        return;
    }
    out.cell(format!("h1_enabled={}", plan.h1_enabled));
    if let Some(e) = &o.listen_ended {
        out.violate("C16", "metrics:listen-returned", e.clone());
    }
    if !o.tunnel_problems.is_empty() {
        // the model is only as good as the workload: do not judge numbers it does not know
        out.cell("workload-problem");
        for p in &o.tunnel_problems {
            out.probe(&format!("problem:{}", p.split(':').nth(1).unwrap_or("").trim()));
        }
    }
    out.nontrivial = !o.scrapes.is_empty() || o.final_scrape.is_some();
    for h in &o.health {
        if *h != Some(200) {
            out.violate("C16", format!("metrics:health-check-{:?}", h), format!("/health-check answered {:?}", h));
        }
    }
    for h in &o.bad_path {
        if *h == Some(200) {
            out.violate("C16", "metrics:unknown-path-200", "an unknown path answered 200".to_string());
        }
    }
    if !o.tunnel_problems.is_empty() {
        // still require that scraping works at all
        for s in &o.scrapes {
            if s.status != Some(200) {
                check_scrape(s, false, out);
            }
        }
        return;
    }
    for s in &o.scrapes {
        check_scrape(s, false, out);
    }
    if let Some(s) = &o.final_scrape {
        check_scrape(s, true, out);
    }
}
