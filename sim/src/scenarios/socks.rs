//! C15: the SOCKS5 upstream dialogue. A strict simulated SOCKS5 server (RFC 1928/1929 and
//! the extended authentication of lib/README.md) validates every byte the endpoint sends and
//! misbehaves on plan: any method selection, any authentication status, any reply code and
//! bound-address type, truncation at any byte, any segmentation of its replies; relayed UDP
//! datagrams with every header shape.

use crate::actors::*;
use crate::endpoint::{self, EpConfig};
use crate::prng::Rng;
use crate::scenario::*;
use crate::sim::{self, Outcome};
use crate::world::{self, EpFaults, HostPlan, PeerConn, PeerRead};
use bytes::Bytes;
use serde::{Deserialize, Serialize};
use serde_json::Value;
use std::net::{IpAddr, SocketAddr};
use std::sync::{Arc, Mutex};
use std::time::Duration;
use trusttunnel::authentication::{Authenticator, Source, Status};

pub struct Socks;

#[derive(Clone, Debug, Serialize, Deserialize, PartialEq)]
pub enum Creds {
    None,
    /// Basic credentials: user, password (the password may contain colons)
    Basic(String, String),
    /// SNI credentials (accepted by the authenticator), no header
    Sni(String),
    /// Basic credentials whose decoded value has no colon (no registry configured: they reach
    /// the forwarder; only the extended format can carry them)
    Token(String),
}

#[derive(Clone, Debug, Serialize, Deserialize, PartialEq)]
pub enum Dest {
    V4(String),
    V6(String),
    Name(String),
    /// a UDP multiplexer stream with this many datagrams
    Udp(usize),
}

#[derive(Clone, Debug, Serialize, Deserialize)]
pub struct Behaviour {
    /// the method byte the server selects: None = the first one offered
    pub select: Option<u8>,
    pub auth_status: u8,
    pub reply_code: u8,
    /// 1, 3, 4 or something invalid
    pub bound_atyp: u8,
    /// close the connection after this many bytes of the server's output
    pub truncate_at: Option<usize>,
    pub cuts: Vec<usize>,
    pub gap_us: u64,
    /// malformed relayed datagrams to inject on a UDP association
    pub bad_datagrams: Vec<u8>,
}

#[derive(Clone, Debug, Serialize, Deserialize)]
pub struct KPlan {
    pub seed: u64,
    pub h2: bool,
    pub extended: bool,
    pub creds: Creds,
    pub user_agent: Option<String>,
    pub dest: Dest,
    pub port: u16,
    pub behaviour: Behaviour,
    pub establish_timeout_us: u64,
}

const SOCKS_ADDR: &str = "10.9.9.9:1080";
const RELAY_ADDR: &str = "10.9.9.9:40500";

struct AcceptAll;

impl Authenticator for AcceptAll {
    fn authenticate(&self, _: &Source<'_>, _: &trusttunnel::log_utils::IdChain<u64>) -> Status {
        Status::Pass
    }
}

fn rand_text(rng: &mut Rng, len: usize, allow_colon: bool) -> String {
    const A: &[char] = &['a', 'B', '3', '-', '_', '.', 'é', '漢', ' ', '@'];
    let mut s = String::new();
    while s.len() < len {
        let c = if allow_colon && rng.chance(1, 12) { ':' } else { *rng.pick(A) };
        if s.len() + c.len_utf8() > len {
            s.push('x');
        } else {
            s.push(c);
        }
    }
    s
}

fn len_class(rng: &mut Rng) -> usize {
    match rng.below(8) {
        0 => 0,
        1 => 1,
        2 => 255,
        3 => 256,
        4 => 257 + rng.usize_below(343),
        _ => 1 + rng.usize_below(40),
    }
}

impl Scenario for Socks {
    fn name(&self) -> &'static str {
        "socks"
    }

    fn budget(&self, tier: Tier) -> u64 {
        match tier {
            Tier::Quick => 100_000,
            Tier::Thorough => 10_000_000,
        }
    }

    fn generate(&self, seed: u64, index: u64, _tier: Tier) -> Value {
        let mut rng = Rng::new(seed).fork(&format!("socks{}", index));
        let creds = match rng.below(9) {
            0 => Creds::None,
            8 => {
                let l = 8 + rng.usize_below(40);
                Creds::Token(format!("TOKEN-{}", rand_text(&mut rng, l, false).replace(':', "c")))
            }
            1 => {
                let l = 1 + rng.usize_below(40);
                Creds::Sni(rand_text(&mut rng, l, false).replace(' ', "s"))
            }
            _ => {
                let ul = len_class(&mut rng);
                let pl = len_class(&mut rng);
                Creds::Basic(rand_text(&mut rng, ul, false), rand_text(&mut rng, pl, true))
            }
        };
        let dest = match rng.below(8) {
            0 | 1 => Dest::V4(if rng.chance(1, 2) {
                "93.184.219.7".into()
            } else {
                format!("{}.{}.{}.{}", *rng.pick(&[1u8, 93, 151, 203, 223]), rng.below(256), rng.below(256), rng.below(256))
            }),
            // an IPv4-mapped literal is an IPv6 destination (ATYP 4) like any other
            2 => Dest::V6(match rng.below(4) {
                0 => "2606:4700::7".into(),
                1 => format!("::ffff:93.184.{}.{}", rng.below(256), 1 + rng.below(254)),
                _ => format!("2a00:{:x}:{:x}:{:x}:{:x}:{:x}:{:x}:{:x}", rng.below(0x10000), rng.below(0x10000), rng.below(0x10000), rng.below(0x10000), rng.below(0x10000), rng.below(0x10000), 1 + rng.below(0xffff)),
            }),
            3 => Dest::Udp(1 + rng.usize_below(4)),
            _ => {
                let l = match rng.below(6) {
                    0 => 255,
                    1 => 256,
                    2 => 300,
                    3 => 1,
                    _ => 4 + rng.usize_below(60),
                };
                let mut name: String = (0..l).map(|i| if i % 20 == 19 { '.' } else { (b'a' + (i % 26) as u8) as char }).collect();
                if name.ends_with('.') {
                    name.pop();
                    name.push('z');
                }
                Dest::Name(name)
            }
        };
        let misbehave = rng.chance(1, 2);
        let behaviour = Behaviour {
            select: if misbehave && rng.chance(1, 2) {
                Some(*rng.pick(&[0x00u8, 0x02, 0x80, 0xff, 0x01, 0x7f]))
            } else {
                None
            },
            auth_status: if misbehave && rng.chance(1, 4) { 1 + rng.below(255) as u8 } else { 0 },
            reply_code: if misbehave && rng.chance(1, 2) { rng.below(12) as u8 } else { 0 },
            bound_atyp: if misbehave && rng.chance(1, 4) { *rng.pick(&[1u8, 3, 4, 0, 2, 9]) } else { 1 },
            truncate_at: if misbehave && rng.chance(1, 4) { Some(rng.usize_below(14)) } else { None },
            cuts: (0..rng.usize_below(5)).map(|_| 1 + rng.usize_below(6)).collect(),
            gap_us: if rng.chance(1, 2) { 0 } else { rng.size(1, 3_000) },
            bad_datagrams: if matches!(dest, Dest::Udp(_)) && rng.chance(1, 2) {
                // 0..7: fixed shapes; 8..29: an IPv6-addressed datagram cut after 0..21 bytes;
                // 30..39: an IPv4-addressed one cut after 0..9 bytes
                (0..1 + rng.usize_below(4)).map(|_| if rng.chance(1, 2) { rng.below(8) as u8 } else { 8 + rng.below(32) as u8 }).collect()
            } else {
                vec![]
            },
        };
        let plan = KPlan {
            seed: rng.next_u64(),
            h2: rng.chance(1, 2),
            extended: rng.chance(1, 2),
            creds,
            user_agent: if rng.chance(2, 3) { Some(format!("agent/{} (sim)", rng.below(100))) } else { None },
            dest,
            port: match rng.below(6) {
                0 => *rng.pick(&[1u16, 80, 443, 255, 256, 65_535]),
                _ => 1 + rng.below(65_535) as u16,
            },
            behaviour,
            establish_timeout_us: 5_000_300,
        };
        to_plan(&plan)
    }

    fn execute(&self, plan: &Value) -> Outcome {
        let plan: KPlan = match from_plan(plan) {
            Ok(p) => p,
            Err(e) => return harness_error(e),
        };
        let p2 = plan.clone();
        let (obs, rep) = sim::run(plan.seed, Duration::from_secs(3600), move || run(p2));
        let mut out = Outcome::default();
        match obs {
            Some(obs) => judge(&plan, &obs, &mut out),
            None => {
                if !rep.main_panicked {
                    out.inconclusive = true;
                }
            }
        }
        let mut out = sim::finish(out, &rep);
        // "or it fails the request": a panic on the SOCKS paths is neither a well-formed
        // dialogue nor a failed request
        let panics: Vec<(String, String)> = out
            .violations
            .iter()
            .filter(|v| v.property == "C09" && v.key.starts_with("panic") && v.detail.contains("socks5_"))
            .map(|v| (v.key.clone(), v.detail.clone()))
            .collect();
        for (k, d) in panics {
            out.violate("C15", format!("socks:{}", k), d);
        }
        out
    }
}

#[derive(Debug, Default, Clone)]
pub struct ServerObs {
    pub connected: bool,
    pub raw: Vec<u8>,
    pub methods: Vec<u8>,
    pub selected: Option<u8>,
    pub auth_raw: Vec<u8>,
    pub username: Option<Vec<u8>>,
    pub password: Option<Vec<u8>>,
    pub ext: Vec<(u8, Vec<u8>)>,
    pub request: Option<(u8, u8, Vec<u8>, u16)>, // cmd, atyp, addr bytes, port
    pub problem: Option<String>,
    pub bytes_after_refusal: usize,
    pub stage: u8,
    pub relayed_payload: Vec<u8>,
}

#[derive(Debug, Default, Clone)]
pub struct Obs {
    pub setup_error: Option<String>,
    pub servers: Vec<ServerObs>,
    pub status: Option<u16>,
    pub warning: Option<u16>,
    pub error: Option<String>,
    pub banner_ok: bool,
    pub t_response_us: u64,
    pub udp_out: Vec<world::UdpSent>,
    pub udp_client_rx: Vec<u8>,
    pub udp_expected: Vec<(SocketAddr, Vec<u8>)>,
    pub udp_replies_sent: Vec<(SocketAddr, Vec<u8>)>,
    pub mux_ended: bool,
}

type Shared<T> = Arc<Mutex<T>>;

async fn read_exact(conn: &PeerConn, buf: &mut Vec<u8>, n: usize, raw: &Shared<ServerObs>) -> bool {
    while buf.len() < n {
        match conn.read(n - buf.len()).await {
            PeerRead::Data(d) => {
                raw.lock().unwrap().raw.extend_from_slice(&d);
                buf.extend_from_slice(&d);
            }
            _ => return false,
        }
    }
    true
}

/// Writes the server's output honouring truncation and segmentation; false = truncated
async fn server_write(conn: &PeerConn, plan: &KPlan, sent: &mut usize, data: &[u8]) -> bool {
    let mut data = data.to_vec();
    if let Some(t) = plan.behaviour.truncate_at {
        if *sent + data.len() > t {
            data.truncate(t.saturating_sub(*sent));
            let gaps: Vec<u64> = plan.behaviour.cuts.iter().map(|_| plan.behaviour.gap_us).collect();
            let _ = write_pieces(conn, &data, &plan.behaviour.cuts, &gaps).await;
            *sent += data.len();
            tokio::task::yield_now().await;
            conn.shutdown_write();
            return false;
        }
    }
    let gaps: Vec<u64> = plan.behaviour.cuts.iter().map(|_| plan.behaviour.gap_us).collect();
    let _ = write_pieces(conn, &data, &plan.behaviour.cuts, &gaps).await;
    *sent += data.len();
    true
}

async fn socks_server(conn: PeerConn, plan: KPlan, so: Shared<ServerObs>) {
    so.lock().unwrap().connected = true;
    let mut sent = 0usize;
    macro_rules! fail {
        ($($a:tt)*) => {{
            so.lock().unwrap().problem = Some(format!($($a)*));
            drain(&conn, &so).await;
            return;
        }};
    }
    // greeting
    let mut b = Vec::new();
    if !read_exact(&conn, &mut b, 2, &so).await {
        return;
    }
    if b[0] != 5 {
        fail!("greeting: version {} instead of 5", b[0]);
    }
    let n = b[1] as usize;
    if n == 0 {
        fail!("greeting: NMETHODS = 0");
    }
    let mut m = Vec::new();
    if !read_exact(&conn, &mut m, n, &so).await {
        fail!("greeting: fewer methods than NMETHODS = {}", n);
    }
    so.lock().unwrap().methods = m.clone();
    so.lock().unwrap().stage = 1;
    let select = plan.behaviour.select.unwrap_or(m[0]);
    so.lock().unwrap().selected = Some(select);
    if !server_write(&conn, &plan, &mut sent, &[5, select]).await {
        drain(&conn, &so).await;
        return;
    }
    let offered = m.contains(&select);
    if select == 0xff || !offered || ![0u8, 2, 0x80].contains(&select) {
        // the client must give up now: anything further is counted
        drain(&conn, &so).await;
        return;
    }
    if select == 2 {
        let mut h = Vec::new();
        if !read_exact(&conn, &mut h, 2, &so).await {
            return;
        }
        if h[0] != 1 {
            fail!("username/password: version {} instead of 1", h[0]);
        }
        let mut u = Vec::new();
        if !read_exact(&conn, &mut u, h[1] as usize, &so).await {
            fail!("username/password: UNAME shorter than ULEN = {}", h[1]);
        }
        let mut pl = Vec::new();
        if !read_exact(&conn, &mut pl, 1, &so).await {
            fail!("username/password: PLEN missing");
        }
        let mut p = Vec::new();
        if !read_exact(&conn, &mut p, pl[0] as usize, &so).await {
            fail!("username/password: PASSWD shorter than PLEN = {}", pl[0]);
        }
        {
            let mut o = so.lock().unwrap();
            o.username = Some(u);
            o.password = Some(p);
            o.stage = 2;
        }
        if !server_write(&conn, &plan, &mut sent, &[1, plan.behaviour.auth_status]).await {
            drain(&conn, &so).await;
            return;
        }
        if plan.behaviour.auth_status != 0 {
            drain(&conn, &so).await;
            return;
        }
    } else if select == 0x80 {
        let mut v = Vec::new();
        if !read_exact(&conn, &mut v, 1, &so).await {
            return;
        }
        if v[0] != 1 {
            fail!("extended authentication: version {} instead of 1", v[0]);
        }
        loop {
            let mut h = Vec::new();
            if !read_exact(&conn, &mut h, 3, &so).await {
                fail!("extended authentication: message ends without TERM");
            }
            let len = u16::from_be_bytes([h[1], h[2]]) as usize;
            let mut val = Vec::new();
            if !read_exact(&conn, &mut val, len, &so).await {
                fail!("extended authentication: value shorter than its length {}", len);
            }
            if h[0] == 0 {
                if len != 0 {
                    fail!("extended authentication: TERM with length {}", len);
                }
                break;
            }
            if h[0] > 5 {
                fail!("extended authentication: unknown extension type {}", h[0]);
            }
            so.lock().unwrap().ext.push((h[0], val));
        }
        so.lock().unwrap().stage = 2;
        if !server_write(&conn, &plan, &mut sent, &[1, plan.behaviour.auth_status]).await {
            drain(&conn, &so).await;
            return;
        }
        if plan.behaviour.auth_status != 0 {
            drain(&conn, &so).await;
            return;
        }
    }
    // request
    let mut r = Vec::new();
    if !read_exact(&conn, &mut r, 4, &so).await {
        return;
    }
    if r[0] != 5 {
        fail!("request: version {} instead of 5", r[0]);
    }
    if r[2] != 0 {
        fail!("request: reserved byte {}", r[2]);
    }
    if r[1] != 1 && r[1] != 3 {
        fail!("request: command {}", r[1]);
    }
    let mut addr = Vec::new();
    match r[3] {
        1 => {
            if !read_exact(&conn, &mut addr, 4, &so).await {
                fail!("request: short IPv4 address");
            }
        }
        4 => {
            if !read_exact(&conn, &mut addr, 16, &so).await {
                fail!("request: short IPv6 address");
            }
        }
        3 => {
            let mut l = Vec::new();
            if !read_exact(&conn, &mut l, 1, &so).await {
                fail!("request: domain length missing");
            }
            if l[0] == 0 {
                fail!("request: empty domain name");
            }
            if !read_exact(&conn, &mut addr, l[0] as usize, &so).await {
                fail!("request: domain shorter than its length {}", l[0]);
            }
        }
        x => fail!("request: address type {}", x),
    }
    let mut port = Vec::new();
    if !read_exact(&conn, &mut port, 2, &so).await {
        fail!("request: port missing");
    }
    {
        let mut o = so.lock().unwrap();
        o.request = Some((r[1], r[3], addr, u16::from_be_bytes([port[0], port[1]])));
        o.stage = 3;
    }
    // reply
    let relay: SocketAddr = RELAY_ADDR.parse().unwrap();
    let mut reply = vec![5, plan.behaviour.reply_code, 0, plan.behaviour.bound_atyp];
    match plan.behaviour.bound_atyp {
        4 => reply.extend_from_slice(&[0x20, 0x01, 0x0d, 0xb8, 0, 0, 0, 0, 0, 0, 0, 0, 0, 0, 0, 1]),
        3 => {
            reply.push(9);
            reply.extend_from_slice(b"relay.sim");
        }
        _ => reply.extend_from_slice(&[10, 9, 9, 9]),
    }
    reply.extend_from_slice(&relay.port().to_be_bytes());
    if !server_write(&conn, &plan, &mut sent, &reply).await {
        drain(&conn, &so).await;
        return;
    }
    if plan.behaviour.reply_code != 0 || ![1u8, 3, 4].contains(&plan.behaviour.bound_atyp) {
        drain(&conn, &so).await;
        return;
    }
    so.lock().unwrap().stage = 4;
    if r[1] == 1 {
        // behave as the destination: banner, then read to the end
        let _ = conn.write_all(b"socks-destination-banner\n").await;
        loop {
            match conn.read(4096).await {
                PeerRead::Data(d) => so.lock().unwrap().relayed_payload.extend_from_slice(&d),
                _ => break,
            }
        }
        conn.shutdown_write();
    } else {
        // UDP association: lives as long as this connection
        loop {
            match conn.read(4096).await {
                PeerRead::Data(d) => so.lock().unwrap().bytes_after_refusal += d.len(),
                _ => break,
            }
        }
    }
}

async fn drain(conn: &PeerConn, so: &Shared<ServerObs>) {
    // whatever the client still sends after it should have given up
    loop {
        match tokio::time::timeout(Duration::from_secs(20), conn.read(4096)).await {
            Ok(PeerRead::Data(d)) => {
                let mut o = so.lock().unwrap();
                o.raw.extend_from_slice(&d);
                o.bytes_after_refusal += d.len();
            }
            _ => break,
        }
    }
    conn.shutdown_write();
}

fn basic_value(c: &Creds) -> Option<String> {
    use base64::Engine;
    match c {
        Creds::Basic(u, p) => Some(base64::engine::general_purpose::STANDARD.encode(format!("{}:{}", u, p))),
        Creds::Token(t) => Some(base64::engine::general_purpose::STANDARD.encode(t)),
        _ => None,
    }
}

fn target(plan: &KPlan) -> String {
    match &plan.dest {
        Dest::V4(a) => format!("{}:{}", a, plan.port),
        Dest::V6(a) => format!("[{}]:{}", a, plan.port),
        Dest::Name(n) => format!("{}:{}", n, plan.port),
        Dest::Udp(_) => "_udp2".into(),
    }
}

async fn run(plan: KPlan) -> Obs {
    let obs: Shared<Obs> = Arc::new(Mutex::new(Obs::default()));
    let cfg = EpConfig {
        listen: "127.0.0.1:443".parse().unwrap(),
        users: vec![],
        socks: Some((SOCKS_ADDR.parse().unwrap(), plan.extended)),
        establish_timeout_us: plan.establish_timeout_us,
        ..EpConfig::default()
    };
    let authenticator: Option<Arc<dyn Authenticator>> = match plan.creds {
        Creds::Sni(_) => Some(Arc::new(AcceptAll)),
        _ => None,
    };
    let ep = match endpoint::build(&cfg, authenticator) {
        Ok(e) => e,
        Err(e) => {
            obs.lock().unwrap().setup_error = Some(e);
            return obs.lock().unwrap().clone();
        }
    };
    world::with(|w| {
        w.hosts.insert(SOCKS_ADDR.parse().unwrap(), HostPlan::default());
    });
    let servers: Shared<Vec<Shared<ServerObs>>> = Arc::new(Mutex::new(Vec::new()));
    let acceptor = {
        let plan = plan.clone();
        let servers = servers.clone();
        tokio::spawn(async move {
            loop {
                let (_, conn) = world::next_established().await;
                let so = Arc::new(Mutex::new(ServerObs::default()));
                servers.lock().unwrap().push(so.clone());
                tokio::spawn(socks_server(conn, plan.clone(), so));
            }
        })
    };

    let (stream, peer) = world::client_conn("203.0.113.77:47000".parse().unwrap(), 1 << 20, 1 << 20, EpFaults::default());
    let sni_creds = match &plan.creds {
        Creds::Sni(s) => Some(s.clone()),
        _ => None,
    };
    if let Creds::Basic(_, p) = &plan.creds {
        sim::canary("configured-password", p);
    }
    if let Creds::Token(t) = &plan.creds {
        sim::canary("proxy-authorization", t);
    }
    if let Some(t) = basic_value(&plan.creds) {
        sim::canary("proxy-authorization", &t);
    }
    let session = {
        let core = ep.core.clone();
        let h2 = plan.h2;
        tokio::spawn(async move { core.verif_serve_session(h2, stream, "vpn.example".into(), sni_creds).await })
    };
    let tgt = target(&plan);
    let t0 = world::now_us();
    let is_udp = matches!(plan.dest, Dest::Udp(_));

    let client = {
        let obs = obs.clone();
        let plan = plan.clone();
        let peer = peer.clone();
        async move {
            let auth = basic_value(&plan.creds).map(|t| format!("Basic {}", t));
            if plan.h2 {
                let c = match h2_connect(peer, H2Params { initial_window: 1 << 20, conn_window: 4 << 20, ..Default::default() }, Rng::new(plan.seed)).await {
                    Ok(c) => c,
                    Err(e) => {
                        obs.lock().unwrap().setup_error = Some(e);
                        return;
                    }
                };
                let mut send = c.send;
                let mut b = http::Request::builder().method("CONNECT").uri(tgt.as_str());
                if let Some(a) = &auth {
                    match http::HeaderValue::from_str(a) {
                        Ok(v) => b = b.header("proxy-authorization", v),
                        Err(_) => {
                            obs.lock().unwrap().error = Some("client cannot encode credentials".into());
                            return;
                        }
                    }
                }
                if let Some(ua) = &plan.user_agent {
                    b = b.header("user-agent", ua.as_str());
                }
                let req = match b.body(()) {
                    Ok(r) => r,
                    Err(e) => {
                        obs.lock().unwrap().error = Some(format!("client cannot build the request: {}", e));
                        return;
                    }
                };
                let _ = std::future::poll_fn(|cx| send.poll_ready(cx)).await;
                let (resp, mut tx) = match send.send_request(req, false) {
                    Ok(x) => x,
                    Err(e) => {
                        obs.lock().unwrap().error = Some(e.to_string());
                        return;
                    }
                };
                let resp = match resp.await {
                    Ok(r) => r,
                    Err(e) => {
                        obs.lock().unwrap().error = Some(format!("response: {}", e));
                        return;
                    }
                };
                {
                    let mut o = obs.lock().unwrap();
                    o.status = Some(resp.status().as_u16());
                    o.t_response_us = world::now_us() - t0;
                    o.warning = resp
                        .headers()
                        .get("x-warning")
                        .and_then(|v| v.to_str().ok())
                        .and_then(|v| v.split(' ').next())
                        .and_then(|v| v.parse().ok());
                }
                if resp.status() != 200 {
                    return;
                }
                let mut body = resp.into_body();
                if let Dest::Udp(n) = plan.dest {
                    udp_exchange(&plan, n, &obs, |d| {
                        tx.reserve_capacity(d.len());
                        tx.send_data(Bytes::from(d), false).is_ok()
                    })
                    .await;
                    let end = tokio::time::timeout(Duration::from_secs(2), async {
                        loop {
                            match body.data().await {
                                Some(Ok(d)) => {
                                    let _ = body.flow_control().release_capacity(d.len());
                                    obs.lock().unwrap().udp_client_rx.extend_from_slice(&d);
                                }
                                _ => break,
                            }
                        }
                    })
                    .await;
                    obs.lock().unwrap().mux_ended = end.is_ok();
                    return;
                }
                let mut got = Vec::new();
                while got.len() < 25 {
                    match body.data().await {
                        Some(Ok(d)) => {
                            let _ = body.flow_control().release_capacity(d.len());
                            got.extend_from_slice(&d);
                        }
                        _ => break,
                    }
                }
                obs.lock().unwrap().banner_ok = got.starts_with(b"socks-destination-banner\n");
                let _ = tx.send_data(Bytes::from_static(b"client-payload"), true);
                while let Some(Ok(_)) = body.data().await {}
            } else {
                let mut head = format!("CONNECT {t} HTTP/1.1\r\nHost: {t}\r\n", t = tgt);
                if let Some(a) = &auth {
                    head.push_str(&format!("Proxy-Authorization: {}\r\n", a));
                }
                if let Some(ua) = &plan.user_agent {
                    head.push_str(&format!("User-Agent: {}\r\n", ua));
                }
                head.push_str("\r\n");
                if head.len() > 1000 {
                    // beyond the HTTP/1.1 head limit: not this scenario's business
                    obs.lock().unwrap().error = Some("head too long for HTTP/1.1".into());
                    return;
                }
                let _ = peer.write_all(head.as_bytes()).await;
                let rest = match h1_read_head(&peer).await {
                    H1ReadHead::Head(h, rest) => {
                        let mut o = obs.lock().unwrap();
                        o.status = Some(h.status);
                        o.t_response_us = world::now_us() - t0;
                        o.warning = h.header_str("x-warning").and_then(|v| v.split(' ').next().and_then(|c| c.parse().ok()));
                        rest
                    }
                    _ => {
                        obs.lock().unwrap().error = Some("no response".into());
                        return;
                    }
                };
                if obs.lock().unwrap().status != Some(200) {
                    return;
                }
                if let Dest::Udp(n) = plan.dest {
                    obs.lock().unwrap().udp_client_rx = rest;
                    let p2 = peer.clone();
                    let mut pending: Vec<Vec<u8>> = Vec::new();
                    udp_exchange(&plan, n, &obs, |d| {
                        pending.push(d);
                        true
                    })
                    .await;
                    for d in pending {
                        let _ = p2.write_all(&d).await;
                    }
                    let end = tokio::time::timeout(Duration::from_secs(2), async {
                        loop {
                            match peer.read(65_536).await {
                                PeerRead::Data(d) => obs.lock().unwrap().udp_client_rx.extend_from_slice(&d),
                                _ => break,
                            }
                        }
                    })
                    .await;
                    obs.lock().unwrap().mux_ended = end.is_ok();
                    return;
                }
                let mut got = rest;
                while got.len() < 25 {
                    match peer.read(4096).await {
                        PeerRead::Data(d) => got.extend_from_slice(&d),
                        _ => break,
                    }
                }
                obs.lock().unwrap().banner_ok = got.starts_with(b"socks-destination-banner\n");
                let _ = peer.write_all(b"client-payload").await;
                peer.shutdown_write();
            }
        }
    };
    let _ = tokio::time::timeout(Duration::from_secs(120), client).await;
    if is_udp {
        // relay side: answer what arrived, inject malformed datagrams
        tokio::time::sleep(Duration::from_millis(20)).await;
    }
    tokio::time::sleep(Duration::from_secs(1)).await;
    peer.shutdown_write();
    peer.stop_reading();
    tokio::time::sleep(Duration::from_secs(2)).await;
    session.abort();
    acceptor.abort();
    let mut o = obs.lock().unwrap().clone();
    o.servers = servers.lock().unwrap().iter().map(|s| s.lock().unwrap().clone()).collect();
    o.udp_out = world::with(|w| w.udp_sent.clone());
    o
}

/// The client's datagrams go out; the relay answers each and throws in malformed ones
async fn udp_exchange(plan: &KPlan, n: usize, obs: &Shared<Obs>, mut send: impl FnMut(Vec<u8>) -> bool) {
    let src: SocketAddr = "10.8.0.2:50000".parse().unwrap();
    for i in 0..n {
        let mut r = Rng::new(plan.seed).fork(&format!("udpdst{}", i));
        let dst: SocketAddr = match (i % 2, r.below(3)) {
            (0, 0) => SocketAddr::new("93.184.220.1".parse().unwrap(), 7000 + i as u16),
            (0, _) => SocketAddr::new(IpAddr::from([*r.pick(&[1u8, 93, 151, 203]), r.below(256) as u8, r.below(256) as u8, 1 + r.below(254) as u8]), 1 + r.below(65_535) as u16),
            (_, 0) => SocketAddr::new("2606:4700::99".parse().unwrap(), 7000 + i as u16),
            (_, 1) => SocketAddr::new(format!("::ffff:93.184.{}.{}", r.below(256), 1 + r.below(254)).parse().unwrap(), 1 + r.below(65_535) as u16),
            _ => SocketAddr::new(format!("2a00:{:x}:{:x}::{:x}", r.below(0x10000), r.below(0x10000), 1 + r.below(0xffff)).parse().unwrap(), 1 + r.below(65_535) as u16),
        };
        let payload = pattern(plan.seed ^ i as u64, 0, 10 + i * 37);
        obs.lock().unwrap().udp_expected.push((dst, payload.clone()));
        let rec = super::udp::encode_record(src, dst, b"app", &payload, None);
        if !send(rec) {
            return;
        }
        sleep_us(3_000).await;
        // the relay answers through the association socket
        let seen = world::with(|w| w.udp_sent.len());
        if seen == 0 {
            continue;
        }
        let sock = world::with(|w| w.udp_sent.last().map(|s| s.sock)).unwrap();
        let relay: SocketAddr = relay_addr(plan);
        let reply_payload = pattern(plan.seed ^ 0xee ^ i as u64, 0, 5 + i);
        let mut dg = vec![0u8, 0, 0];
        match dst.ip() {
            IpAddr::V4(a) => {
                dg.push(1);
                dg.extend_from_slice(&a.octets());
            }
            IpAddr::V6(a) => {
                dg.push(4);
                dg.extend_from_slice(&a.octets());
            }
        }
        dg.extend_from_slice(&dst.port().to_be_bytes());
        dg.extend_from_slice(&reply_payload);
        if world::udp_deliver(sock, relay, &dg) {
            obs.lock().unwrap().udp_replies_sent.push((dst, reply_payload));
        }
        sleep_us(2_000).await;
        if let Some(kind) = plan.behaviour.bad_datagrams.get(i) {
            let bad: Vec<u8> = match kind {
                0 => vec![],
                1 => vec![0, 0, 0],
                2 => vec![0, 0, 0, 1, 1, 2, 3],
                3 => vec![0, 0, 0, 4, 1, 2, 3, 4, 5, 6, 7, 8, 9, 10],
                4 => vec![0, 0, 1, 1, 1, 2, 3, 4, 0, 80, 9],
                5 => vec![0, 0, 0, 3, 2, b'a', b'b', 0, 80, 9],
                6 => vec![9, 9, 0, 1, 1, 2, 3, 4, 0, 80],
                7 => vec![0, 0, 0, 9, 1, 2, 3, 4, 0, 80, 1, 2, 3],
                k @ 8..=29 => {
                    let mut d = vec![0u8, 0, 0, 4];
                    d.extend_from_slice(&"2606:4700::99".parse::<std::net::Ipv6Addr>().unwrap().octets());
                    d.extend_from_slice(&7001u16.to_be_bytes());
                    d.truncate((*k - 8) as usize);
                    d
                }
                k => {
                    let mut d = vec![0u8, 0, 0, 1, 93, 184, 220, 1];
                    d.extend_from_slice(&7000u16.to_be_bytes());
                    d.truncate((*k as usize).saturating_sub(30).min(9));
                    d
                }
            };
            world::count("socks_bad_datagram");
            let _ = world::udp_deliver(sock, relay, &bad);
            sleep_us(2_000).await;
        }
    }
}

fn judge(plan: &KPlan, o: &Obs, out: &mut Outcome) {
    if let Some(e) = &o.setup_error {
        out.violate("HARNESS", "socks-setup", e.clone());
        return;
    }
    let proto = if plan.h2 { "h2" } else { "h1" };
    let mode = if plan.extended { "extended" } else { "standard" };
    let creds_kind = match &plan.creds {
        Creds::None => "none",
        Creds::Basic(u, p) => {
            if u.len() > 255 || p.len() > 255 {
                "basic-long"
            } else if u.is_empty() || p.is_empty() {
                "basic-empty"
            } else {
                "basic"
            }
        }
        Creds::Sni(_) => "sni",
        Creds::Token(_) => "basic-nocolon",
    };
    let dest_kind = match &plan.dest {
        Dest::V4(_) => "v4",
        Dest::V6(_) => "v6",
        Dest::Name(n) => {
            if n.len() > 255 {
                "name-long"
            } else {
                "name"
            }
        }
        Dest::Udp(_) => "udp",
    };
    out.cell(format!("{}:{}:{}:{}", proto, mode, creds_kind, dest_kind));
    if o.error.as_deref() == Some("head too long for HTTP/1.1") || o.error.as_deref() == Some("client cannot encode credentials") {
        return;
    }
    out.nontrivial = !o.servers.is_empty();
    let have_creds = plan.creds != Creds::None;
    // ---- every server connection: well-formed or nothing ----------------------------------
    for (k, s) in o.servers.iter().enumerate() {
        if let Some(p) = &s.problem {
            out.violate(
                "C15",
                format!("socks:{}:{}:malformed:{}", mode, creds_kind, p.split(':').next().unwrap_or("?")),
                format!("connection {}: {} (received so far: {} bytes)", k, p, s.raw.len()),
            );
            continue;
        }
        if s.methods.is_empty() {
            continue;
        }
        // offered methods reflect the availability of credentials
        let want_method = if plan.extended { 0x80 } else { 0x02 };
        for m in &s.methods {
            if ![0u8, 2, 0x80].contains(m) {
                out.violate("C15", format!("socks:{}:unknown-method-offered", mode), format!("methods {:?}", s.methods));
            }
        }
        if have_creds && !s.methods.contains(&want_method) {
            out.violate(
                "C15",
                format!("socks:{}:{}:credentials-not-offered", mode, creds_kind),
                format!("client has credentials but offered only {:?}", s.methods),
            );
        }
        if !have_creds && s.methods.iter().any(|m| *m != 0) {
            out.violate(
                "C15",
                format!("socks:{}:method-offered-without-credentials", mode),
                format!("no credentials but offered {:?}", s.methods),
            );
        }
        // proceeds only on an offered method and success
        let sel = s.selected.unwrap_or(0xff);
        let legit = s.methods.contains(&sel) && [0u8, 2, 0x80].contains(&sel);
        if !legit && (s.stage >= 2 || s.bytes_after_refusal > 0) {
            out.violate(
                "C15",
                format!("socks:{}:continued-after-bad-selection-{:#x}", mode, sel),
                format!("server selected {:#x} (offered {:?}) and the client sent {} more bytes", sel, s.methods, s.bytes_after_refusal),
            );
        }
        if legit && plan.behaviour.auth_status != 0 && sel != 0 && (s.stage >= 3 || s.bytes_after_refusal > 0) && plan.behaviour.truncate_at.is_none() {
            out.violate(
                "C15",
                format!("socks:{}:continued-after-auth-failure", mode),
                format!("status {} and the client sent {} more bytes", plan.behaviour.auth_status, s.bytes_after_refusal),
            );
        }
        // credentials: the two halves split at the first colon
        if let (Some(u), Some(p)) = (&s.username, &s.password) {
            let (wu, wp): (Vec<u8>, Vec<u8>) = match &plan.creds {
                Creds::Basic(u, p) => (u.as_bytes().to_vec(), p.as_bytes().to_vec()),
                Creds::Sni(x) => (x.as_bytes().to_vec(), x.as_bytes().to_vec()),
                // nothing can be "the two halves" of a value without a colon: any such message differs
                Creds::Token(_) => (vec![0xff], vec![0xff]),
                Creds::None => (vec![], vec![]),
            };
            if *u != wu || *p != wp {
                out.violate(
                    "C15",
                    format!("socks:{}:{}:credentials-differ", mode, creds_kind),
                    format!(
                        "sent user {} bytes / password {} bytes, expected {} / {} (first colon split)",
                        u.len(), p.len(), wu.len(), wp.len()
                    ),
                );
            }
        }
        if sel == 0x80 && s.stage >= 2 {
            let get = |t: u8| s.ext.iter().find(|(x, _)| *x == t).map(|(_, v)| v.clone());
            if get(1).as_deref() != Some(b"vpn.example".as_slice()) {
                out.violate("C15", "socks:extended:domain", format!("DOMAIN = {:?}", get(1).map(|v| String::from_utf8_lossy(&v).into_owned())));
            }
            if get(2) != Some(vec![203, 0, 113, 77]) {
                out.violate("C15", "socks:extended:client-address", format!("CLIENT_ADDRESS = {:?}", get(2)));
            }
            match (&plan.user_agent, get(3)) {
                (Some(ua), Some(v)) if v == ua.as_bytes() => {}
                (None, None) => {}
                (a, b) => out.violate("C15", "socks:extended:user-agent", format!("sent {:?}, expected {:?}", b.map(|v| String::from_utf8_lossy(&v).into_owned()), a)),
            }
            match &plan.creds {
                Creds::Basic(..) | Creds::Token(_) => {
                    if get(4).map(|v| String::from_utf8_lossy(&v).into_owned()) != basic_value(&plan.creds) || get(5).is_some() {
                        out.violate("C15", "socks:extended:proxy-auth", "PROXY_AUTH differs from the client's token (or SNI_AUTH also present)".to_string());
                    }
                }
                Creds::Sni(_) => {
                    if get(5) != Some(vec![]) || get(4).is_some() {
                        out.violate("C15", "socks:extended:sni-auth", "SNI_AUTH marker missing".to_string());
                    }
                }
                Creds::None => {}
            }
        }
        // the request keeps address type and port
        if let Some((cmd, atyp, addr, port)) = &s.request {
            match &plan.dest {
                Dest::Udp(_) => {
                    if *cmd != 3 {
                        out.violate("C15", "socks:request:command", format!("command {} for a UDP association", cmd));
                    }
                }
                d => {
                    let (want_atyp, want_addr): (u8, Vec<u8>) = match d {
                        Dest::V4(a) => (1, a.parse::<std::net::Ipv4Addr>().unwrap().octets().to_vec()),
                        Dest::V6(a) => (4, a.parse::<std::net::Ipv6Addr>().unwrap().octets().to_vec()),
                        Dest::Name(n) => (3, n.as_bytes().to_vec()),
                        Dest::Udp(_) => unreachable!(),
                    };
                    if *cmd != 1 || *atyp != want_atyp || *addr != want_addr || *port != plan.port {
                        out.violate(
                            "C15",
                            format!("socks:request:{}:destination-differs", dest_kind),
                            format!("cmd {} atyp {} addr {} bytes port {}; expected atyp {} addr {} bytes port {}", cmd, atyp, addr.len(), port, want_atyp, want_addr.len(), plan.port),
                        );
                    }
                }
            }
        }
    }
    // ---- outcome of the client's request ---------------------------------------------------
    let b = &plan.behaviour;
    let first = o.servers.first();
    let must_fail = first.map(|s| {
        let sel = s.selected.unwrap_or(0xff);
        let legit = s.methods.contains(&sel) && [0u8, 2, 0x80].contains(&sel);
        !legit || (sel != 0 && b.auth_status != 0) || b.reply_code != 0 || ![1u8, 3, 4].contains(&b.bound_atyp) || b.truncate_at.is_some()
    });
    let name_too_long = matches!(&plan.dest, Dest::Name(n) if n.len() > 255);
    let creds_too_long = matches!(&plan.creds, Creds::Basic(u, p) if u.len() > 255 || p.len() > 255) && !plan.extended;
    match o.status {
        None => {
            // the multiplexer's SOCKS dialogue happens per flow; a TCP request must be answered
            if !matches!(plan.dest, Dest::Udp(_)) || first.is_some() {
                out.violate(
                    "C15",
                    format!("socks:{}:no-response", proto),
                    format!("request got no response: {:?}", o.error),
                );
            }
        }
        Some(200) => {
            if let Dest::Udp(_) = plan.dest {
                judge_udp(plan, o, out);
                return;
            }
            if must_fail == Some(true) || name_too_long {
                // a truncation beyond the reply is not a failure of the dialogue
                let sel = first.and_then(|s| s.selected).unwrap_or(0);
                let total = 2 + if sel != 0 { 2 } else { 0 } + match b.bound_atyp {
                    4 => 22usize,
                    3 => 16,
                    _ => 10,
                };
                let truncated_late = b.truncate_at.map(|t| t >= total).unwrap_or(false);
                if !truncated_late {
                    out.violate(
                        "C15",
                        format!("socks:{}:200-despite-server-failure", mode),
                        format!("behaviour {:?} but the client got 200", b),
                    );
                }
            } else if !o.banner_ok {
                out.violate("C15", "socks:tunnel-payload", "200 but the destination's bytes did not arrive".to_string());
            }
        }
        Some(s) => {
            let udp_domain_bound = matches!(plan.dest, Dest::Udp(_)) && b.bound_atyp == 3;
            if must_fail == Some(false) && !name_too_long && !creds_too_long && !udp_domain_bound && first.map(|x| x.problem.is_none()).unwrap_or(true) {
                let empty = matches!(&plan.creds, Creds::Basic(u, p) if u.is_empty() || p.is_empty());
                if !empty {
                    out.violate(
                        "C15",
                        format!("socks:{}:{}:{}:failed-{}", mode, creds_kind, dest_kind, s),
                        format!("a cooperative server, yet the request answered {} / {:?}", s, o.warning),
                    );
                }
            }
            // documented mapping of reply codes
            if let Some(sv) = first {
                let sel = sv.selected.unwrap_or(0xff);
                let legit = sv.methods.contains(&sel) && [0u8, 2, 0x80].contains(&sel);
                let reached_reply = legit && (sel == 0 || b.auth_status == 0) && b.truncate_at.is_none() && sv.problem.is_none() && !name_too_long && sv.stage >= 3;
                if reached_reply && [1u8, 3, 4].contains(&b.bound_atyp) && !matches!(plan.dest, Dest::Udp(_)) {
                    let want = match b.reply_code {
                        3 | 4 => Some(301),
                        6 => Some(302),
                        _ => None,
                    };
                    if let Some(w) = want {
                        if s != 502 || o.warning != Some(w) {
                            out.violate(
                                "C15",
                                format!("socks:reply-code-{}-mapped-to-{}-{:?}", b.reply_code, s, o.warning),
                                format!("reply code {} must become 502 / {}", b.reply_code, w),
                            );
                        }
                    }
                }
            }
            if o.t_response_us > plan.establish_timeout_us + 50_000 && !matches!(plan.dest, Dest::Udp(_)) {
                out.violate("C15", "socks:slow-failure", format!("failure reported after {} us", o.t_response_us));
            }
        }
    }
}

fn relay_addr(plan: &KPlan) -> SocketAddr {
    let v4: SocketAddr = RELAY_ADDR.parse().unwrap();
    if plan.behaviour.bound_atyp == 4 {
        SocketAddr::new("2001:db8::1".parse().unwrap(), v4.port())
    } else {
        v4
    }
}

fn judge_udp(plan: &KPlan, o: &Obs, out: &mut Outcome) {
    // wrapped per RFC 1928 section 7: RSV RSV FRAG ATYP ADDR PORT DATA, to the relay address
    let relay: SocketAddr = relay_addr(plan);
    // (a domain name as the relay's address is refused by the endpoint: a failed flow)
    let cooperative = o.servers.iter().all(|s| s.problem.is_none() && s.stage >= 4) && plan.behaviour.bound_atyp != 3;
    for s in &o.udp_out {
        if s.dst != relay {
            out.violate("C15", "socks:udp:not-sent-to-relay", format!("datagram sent to {}", s.dst));
        }
        let p = &s.payload;
        if p.len() < 10 || p[0] != 0 || p[1] != 0 || p[2] != 0 {
            out.violate("C15", "socks:udp:bad-header", format!("{:?}", &p[..p.len().min(12)]));
            continue;
        }
        let (dst, data) = match p[3] {
            1 => (SocketAddr::new(IpAddr::from([p[4], p[5], p[6], p[7]]), u16::from_be_bytes([p[8], p[9]])), &p[10..]),
            4 if p.len() >= 22 => {
                let mut a = [0u8; 16];
                a.copy_from_slice(&p[4..20]);
                (SocketAddr::new(IpAddr::from(a), u16::from_be_bytes([p[20], p[21]])), &p[22..])
            }
            x => {
                out.violate("C15", "socks:udp:bad-atyp", format!("ATYP {}", x));
                continue;
            }
        };
        if !o.udp_expected.iter().any(|(d, pl)| *d == dst && pl == data) {
            out.violate("C15", "socks:udp:payload-differs", format!("datagram to {} ({} bytes) is not one the client sent", dst, data.len()));
        }
    }
    if cooperative && plan.behaviour.bad_datagrams.is_empty() && o.udp_out.len() != o.udp_expected.len() {
        out.violate(
            "C15",
            "socks:udp:datagrams-missing",
            format!("{} of {} datagrams reached the relay", o.udp_out.len(), o.udp_expected.len()),
        );
    }
    // replies unwrapped and labelled
    match super::udp::parse_replies(&o.udp_client_rx) {
        Err(e) => out.violate("C15", "socks:udp:reply-framing", e),
        Ok((replies, _)) => {
            for r in &replies {
                if !o.udp_replies_sent.iter().any(|(d, pl)| *d == r.src && *pl == r.payload) {
                    out.violate(
                        "C15",
                        "socks:udp:reply-differs",
                        format!("client got {} bytes from {} which the relay did not send", r.payload.len(), r.src),
                    );
                }
            }
            if cooperative && plan.behaviour.bad_datagrams.is_empty() && replies.len() != o.udp_replies_sent.len() {
                out.violate(
                    "C15",
                    "socks:udp:replies-missing",
                    format!("{} of {} relayed replies reached the client", replies.len(), o.udp_replies_sent.len()),
                );
            }
        }
    }
}
