//! Harness actors: HTTP/1.1 and HTTP/2 clients, byte-pattern generators, small parsers.
//! Actors are ordinary tasks on the simulated runtime and only act as the plan tells them.

use crate::prng::{splitmix64, Rng};
use crate::world::{Cut, PeerConn, PeerIo, PeerRead};
use bytes::Bytes;
use std::time::Duration;

/// Byte `i` of the stream tagged `tag`: position-coded, so loss, duplication and reordering
/// are all visible
pub fn pattern_byte(tag: u64, i: u64) -> u8 {
    let mut x = tag ^ (i / 8).wrapping_mul(0x9E37_79B9_7F4A_7C15);
    let w = splitmix64(&mut x);
    (w >> (8 * (i % 8))) as u8
}

pub fn pattern(tag: u64, from: u64, len: usize) -> Vec<u8> {
    let mut v = Vec::with_capacity(len);
    let mut i = from;
    let end = from + len as u64;
    while i < end {
        let mut x = tag ^ (i / 8).wrapping_mul(0x9E37_79B9_7F4A_7C15);
        let w = splitmix64(&mut x).to_le_bytes();
        let o = (i % 8) as usize;
        let k = (8 - o).min((end - i) as usize);
        v.extend_from_slice(&w[o..o + k]);
        i += k as u64;
    }
    v
}

/// Checks a received stream against the pattern, incrementally
#[derive(Debug, Clone)]
pub struct PatternCheck {
    pub tag: u64,
    pub received: u64,
    pub mismatch_at: Option<u64>,
}

impl PatternCheck {
    pub fn new(tag: u64) -> Self {
        Self {
            tag,
            received: 0,
            mismatch_at: None,
        }
    }
    pub fn feed(&mut self, data: &[u8]) {
        if self.mismatch_at.is_none() {
            let exp = pattern(self.tag, self.received, data.len());
            if exp != data {
                let k = exp.iter().zip(data).position(|(a, b)| a != b).unwrap_or(0);
                self.mismatch_at = Some(self.received + k as u64);
            }
        }
        self.received += data.len() as u64;
    }
}

pub async fn sleep_us(us: u64) {
    if us > 0 {
        tokio::time::sleep(Duration::from_micros(us)).await;
    }
}

// ---------------------------------------------------------------------------------------
// HTTP/1.1
// ---------------------------------------------------------------------------------------

#[derive(Debug, Clone, Default)]
pub struct H1Head {
    pub status: u16,
    pub version_minor: u8,
    pub headers: Vec<(String, Vec<u8>)>,
    pub raw: Vec<u8>,
}

impl H1Head {
    pub fn header(&self, name: &str) -> Option<&[u8]> {
        self.headers
            .iter()
            .find(|(n, _)| n.eq_ignore_ascii_case(name))
            .map(|(_, v)| v.as_slice())
    }
    pub fn header_str(&self, name: &str) -> Option<String> {
        self.header(name)
            .map(|v| String::from_utf8_lossy(v).into_owned())
    }
    pub fn count(&self, name: &str) -> usize {
        self.headers
            .iter()
            .filter(|(n, _)| n.eq_ignore_ascii_case(name))
            .count()
    }
}

/// Strict parser of an HTTP/1.x response head. `Ok(None)` = incomplete.
pub fn parse_h1_response_head(buf: &[u8]) -> Result<Option<(H1Head, usize)>, String> {
    let end = match find(buf, b"\r\n\r\n") {
        Some(i) => i + 4,
        None => return Ok(None),
    };
    let text = &buf[..end];
    let mut lines = text[..end - 3].split(|b| *b == b'\n');
    let status_line = lines.next().ok_or("empty")?;
    let status_line = status_line
        .strip_suffix(b"\r")
        .unwrap_or(status_line);
    let sl = std::str::from_utf8(status_line).map_err(|_| "status line not UTF-8")?;
    if !sl.starts_with("HTTP/1.") || sl.len() < 12 {
        return Err(format!("bad status line: {:?}", sl));
    }
    let minor = sl.as_bytes()[7];
    if minor != b'0' && minor != b'1' {
        return Err(format!("bad version: {:?}", sl));
    }
    if sl.as_bytes()[8] != b' ' {
        return Err(format!("bad status line: {:?}", sl));
    }
    let code: u16 = sl[9..12]
        .parse()
        .map_err(|_| format!("bad status code: {:?}", sl))?;
    if sl.len() > 12 && sl.as_bytes()[12] != b' ' {
        return Err(format!("bad status line: {:?}", sl));
    }
    let mut headers = Vec::new();
    for l in lines {
        let l = l.strip_suffix(b"\r").ok_or("bare LF in head")?;
        if l.is_empty() {
            return Err("empty line inside head".into());
        }
        let c = l.iter().position(|b| *b == b':').ok_or("header without colon")?;
        let name = std::str::from_utf8(&l[..c]).map_err(|_| "header name not UTF-8")?;
        if name.is_empty() || name.bytes().any(|b| b <= b' ' || b >= 127) {
            return Err(format!("bad header name {:?}", name));
        }
        let mut v = &l[c + 1..];
        while v.first() == Some(&b' ') || v.first() == Some(&b'\t') {
            v = &v[1..];
        }
        while v.last() == Some(&b' ') || v.last() == Some(&b'\t') {
            v = &v[..v.len() - 1];
        }
        headers.push((name.to_string(), v.to_vec()));
    }
    Ok(Some((
        H1Head {
            status: code,
            version_minor: minor - b'0',
            headers,
            raw: text.to_vec(),
        },
        end,
    )))
}

pub fn find(hay: &[u8], needle: &[u8]) -> Option<usize> {
    if needle.is_empty() || hay.len() < needle.len() {
        return None;
    }
    (0..=hay.len() - needle.len()).find(|i| &hay[*i..*i + needle.len()] == needle)
}

#[derive(Debug)]
pub enum H1ReadHead {
    Head(H1Head, Vec<u8>),
    /// connection ended (cleanly or not) before a complete head; bytes received so far
    Closed(Vec<u8>, PeerRead),
    Malformed(String, Vec<u8>),
}

/// Read from the connection until a complete response head is in; returns the leftover
pub async fn h1_read_head(conn: &PeerConn) -> H1ReadHead {
    let mut buf = Vec::new();
    loop {
        match parse_h1_response_head(&buf) {
            Ok(Some((h, n))) => return H1ReadHead::Head(h, buf[n..].to_vec()),
            Ok(None) => {}
            Err(e) => return H1ReadHead::Malformed(e, buf),
        }
        if buf.len() > 64 * 1024 {
            return H1ReadHead::Malformed("head longer than 64 KiB".into(), buf);
        }
        match conn.read(16 * 1024).await {
            PeerRead::Data(d) => buf.extend_from_slice(&d),
            other => return H1ReadHead::Closed(buf, other),
        }
    }
}

/// Write `data` in the given pieces (sizes; the rest goes in one piece) with a gap before
/// each piece after the first
pub async fn write_pieces(conn: &PeerConn, data: &[u8], cuts: &[usize], gaps_us: &[u64]) -> Result<(), ()> {
    let mut off = 0;
    let mut i = 0;
    while off < data.len() {
        let n = cuts
            .get(i)
            .copied()
            .unwrap_or(data.len() - off)
            .clamp(1, data.len() - off);
        if i > 0 {
            sleep_us(gaps_us.get(i - 1).copied().unwrap_or(0)).await;
        }
        conn.write_all(&data[off..off + n]).await?;
        off += n;
        i += 1;
    }
    Ok(())
}

// ---------------------------------------------------------------------------------------
// HTTP/2
// ---------------------------------------------------------------------------------------

pub struct H2Client {
    pub send: h2::client::SendRequest<Bytes>,
    pub driver: tokio::task::JoinHandle<Result<(), String>>,
}

pub struct H2Params {
    pub seg: Cut,
    pub initial_window: u32,
    pub conn_window: u32,
    pub max_frame: u32,
}

impl Default for H2Params {
    fn default() -> Self {
        Self {
            seg: Cut::All,
            initial_window: 65_535,
            conn_window: 1 << 20,
            max_frame: 16_384,
        }
    }
}

pub async fn h2_connect(conn: PeerConn, p: H2Params, rng: Rng) -> Result<H2Client, String> {
    let io = PeerIo {
        conn,
        seg: p.seg,
        rng,
        pace: None,
    };
    let (send, connection) = h2::client::Builder::new()
        .initial_window_size(p.initial_window)
        .initial_connection_window_size(p.conn_window)
        .max_frame_size(p.max_frame)
        .handshake::<_, Bytes>(io)
        .await
        .map_err(|e| format!("h2 client handshake: {}", e))?;
    let driver = tokio::spawn(async move { connection.await.map_err(|e| e.to_string()) });
    Ok(H2Client { send, driver })
}

/// A transport with one-way latency in each direction: what one side writes reaches the other
/// `up_us` / `down_us` later, in order. Bytes are then "in flight" for a while, which is what
/// lets a request cross a GOAWAY (or any other event) on the wire.
pub fn with_latency<T>(io: T, up_us: u64, down_us: u64) -> tokio::io::DuplexStream
where
    T: tokio::io::AsyncRead + tokio::io::AsyncWrite + Unpin + Send + 'static,
{
    use tokio::io::{AsyncReadExt, AsyncWriteExt};
    use tokio::sync::mpsc;
    use tokio::time::Instant;
    let (near, far) = tokio::io::duplex(1 << 20);
    let (mut far_r, mut far_w) = tokio::io::split(far);
    let (mut io_r, mut io_w) = tokio::io::split(io);
    let (utx, mut urx) = mpsc::unbounded_channel::<(Instant, Option<Vec<u8>>)>();
    tokio::spawn(async move {
        loop {
            let mut b = vec![0u8; 16 * 1024];
            match far_r.read(&mut b).await {
                Ok(0) | Err(_) => {
                    let _ = utx.send((Instant::now() + Duration::from_micros(up_us), None));
                    break;
                }
                Ok(n) => {
                    b.truncate(n);
                    if utx.send((Instant::now() + Duration::from_micros(up_us), Some(b))).is_err() {
                        break;
                    }
                }
            }
        }
    });
    tokio::spawn(async move {
        while let Some((at, d)) = urx.recv().await {
            tokio::time::sleep_until(at).await;
            match d {
                Some(b) => {
                    if io_w.write_all(&b).await.is_err() {
                        break;
                    }
                }
                None => {
                    let _ = io_w.shutdown().await;
                    break;
                }
            }
        }
    });
    let (dtx, mut drx) = mpsc::unbounded_channel::<(Instant, Option<Vec<u8>>)>();
    tokio::spawn(async move {
        loop {
            let mut b = vec![0u8; 16 * 1024];
            match io_r.read(&mut b).await {
                Ok(0) | Err(_) => {
                    let _ = dtx.send((Instant::now() + Duration::from_micros(down_us), None));
                    break;
                }
                Ok(n) => {
                    b.truncate(n);
                    if dtx.send((Instant::now() + Duration::from_micros(down_us), Some(b))).is_err() {
                        break;
                    }
                }
            }
        }
    });
    tokio::spawn(async move {
        while let Some((at, d)) = drx.recv().await {
            tokio::time::sleep_until(at).await;
            match d {
                Some(b) => {
                    if far_w.write_all(&b).await.is_err() {
                        break;
                    }
                }
                None => {
                    let _ = far_w.shutdown().await;
                    break;
                }
            }
        }
    });
    near
}

/// The same over any transport (a TLS stream, say)
pub async fn h2_connect_io<T>(io: T, p: H2Params) -> Result<H2Client, String>
where
    T: tokio::io::AsyncRead + tokio::io::AsyncWrite + Unpin + Send + 'static,
{
    let (send, connection) = h2::client::Builder::new()
        .initial_window_size(p.initial_window)
        .initial_connection_window_size(p.conn_window)
        .max_frame_size(p.max_frame)
        .handshake::<_, Bytes>(io)
        .await
        .map_err(|e| format!("h2 client handshake: {}", e))?;
    let driver = tokio::spawn(async move { connection.await.map_err(|e| e.to_string()) });
    Ok(H2Client { send, driver })
}

/// Read an HTTP/1.x response head from any async stream; returns the head and the leftover,
/// or the bytes received before the stream ended
pub async fn io_read_head<T: tokio::io::AsyncRead + Unpin>(io: &mut T) -> Result<(H1Head, Vec<u8>), (String, Vec<u8>)> {
    use tokio::io::AsyncReadExt;
    let mut buf = Vec::new();
    loop {
        match parse_h1_response_head(&buf) {
            Ok(Some((h, n))) => return Ok((h, buf[n..].to_vec())),
            Ok(None) => {}
            Err(e) => return Err((format!("malformed: {}", e), buf)),
        }
        let mut tmp = [0u8; 16 * 1024];
        match io.read(&mut tmp).await {
            Ok(0) => return Err(("closed".into(), buf)),
            Ok(n) => buf.extend_from_slice(&tmp[..n]),
            Err(e) => return Err((format!("error: {}", e), buf)),
        }
    }
}

/// Read until the stream ends; Ok(true) = clean end
pub async fn io_read_to_end<T: tokio::io::AsyncRead + Unpin>(io: &mut T, into: &mut Vec<u8>, keep: bool, count: &mut u64) -> bool {
    use tokio::io::AsyncReadExt;
    let mut tmp = vec![0u8; 64 * 1024];
    loop {
        match io.read(&mut tmp).await {
            Ok(0) => return true,
            Ok(n) => {
                *count += n as u64;
                if keep {
                    into.extend_from_slice(&tmp[..n]);
                }
            }
            Err(_) => return false,
        }
    }
}

pub fn basic_auth(user: &str, pass: &str) -> String {
    use base64::Engine;
    format!(
        "Basic {}",
        base64::engine::general_purpose::STANDARD.encode(format!("{}:{}", user, pass))
    )
}
