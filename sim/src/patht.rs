//! Path T: the real `Core::listen()` accept loop, `TlsListener`, rustls and `TlsDemux`
//! between a simulated client and the codecs.

use crate::endpoint::Endpoint;
use crate::prng::Rng;
use crate::tls::{tls_connect, TlsParams, TlsSession};
use crate::world::{self, EpFaults, PeerConn};
use std::net::SocketAddr;

pub struct Listening {
    pub task: tokio::task::JoinHandle<std::io::Result<()>>,
}

/// Start `Core::listen()` and wait until its TCP listener exists
pub async fn start(ep: &Endpoint, listen: SocketAddr) -> Listening {
    let core = ep.core.clone();
    let task = tokio::spawn(async move { core.listen().await });
    for _ in 0..100 {
        if world::listener_exists(&listen) || task.is_finished() {
            break;
        }
        tokio::task::yield_now().await;
    }
    Listening { task }
}

/// A raw client connection to the endpoint's listener (None if nothing listens)
pub fn connect_raw(listen: SocketAddr, client: SocketAddr, faults: EpFaults) -> Option<PeerConn> {
    let c = world::connect_to_listener(listen, client, 256 * 1024, 256 * 1024, faults)?;
    // ciphertext is not reproducible: keep it out of the trace
    c.set_quiet(true);
    Some(c)
}

pub async fn connect_tls(
    listen: SocketAddr,
    client: SocketAddr,
    params: TlsParams,
    rng: Rng,
) -> Result<(TlsSession, PeerConn), String> {
    let conn = connect_raw(listen, client, EpFaults::default()).ok_or("nothing listens")?;
    let s = tls_connect(conn.clone(), params, rng).await?;
    Ok((s, conn))
}
