//! Building a real `trusttunnel::core::Core` from a plain configuration record.

use serde::{Deserialize, Serialize};
use std::net::SocketAddr;
use std::sync::{Arc, Mutex};
use std::time::Duration;
use trusttunnel::authentication::registry_based::{Client, RegistryBasedAuthenticator};
use trusttunnel::authentication::Authenticator;
use trusttunnel::core::Core;
use trusttunnel::settings::{
    ForwardProtocolSettings, Http1Settings, Http2Settings, IcmpSettings, ListenProtocolSettings,
    MetricsSettings, QuicSettings, ReverseProxySettings, Settings, Socks5ForwarderSettings,
    TlsHostInfo, TlsHostsSettings,
};
use trusttunnel::shutdown::Shutdown;

pub const ASSETS: &str = "/verif/assets";

/// All simulated time-outs carry a sub-millisecond fraction: tokio's paused clock lands
/// exactly on a deadline whereas real timers fire a little late, and the endpoint compares
/// `last_activity < now - T` strictly (DESIGN.md 3.2).
pub const FRACTION_US: u64 = 300;

#[derive(Clone, Debug, Serialize, Deserialize)]
pub struct EpConfig {
    pub listen: SocketAddr,
    pub h1: bool,
    pub h2: bool,
    pub quic: bool,
    pub users: Vec<(String, String)>,
    pub allow_private: bool,
    pub ipv6: bool,
    pub tcp_timeout_us: u64,
    pub udp_timeout_us: u64,
    pub establish_timeout_us: u64,
    pub listener_timeout_us: u64,
    pub handshake_timeout_us: u64,
    pub socks: Option<(SocketAddr, bool)>,
    pub icmp: Option<(u64, usize)>,
    pub metrics: Option<(SocketAddr, u64)>,
    pub h2_conn_window: u32,
    pub h2_stream_window: u32,
    pub h2_max_frame: u32,
    pub h1_upload_buffer: usize,
    pub reverse_proxy: Option<(SocketAddr, String)>,
    pub speedtest: bool,
    pub main_hosts: Vec<HostCfg>,
    pub ping_hosts: Vec<HostCfg>,
    pub speed_hosts: Vec<HostCfg>,
    pub rp_hosts: Vec<HostCfg>,
}

#[derive(Clone, Debug, Serialize, Deserialize, PartialEq)]
pub struct HostCfg {
    pub hostname: String,
    /// which generated certificate (0..N_CERTS) the host presents
    pub cert: usize,
    pub allowed_sni: Vec<String>,
}

pub const N_CERTS: usize = 8;

impl Default for EpConfig {
    fn default() -> Self {
        Self {
            listen: "198.51.100.1:443".parse().unwrap(),
            h1: true,
            h2: true,
            quic: false,
            users: vec![("u0".into(), "p0-secret-password".into())],
            allow_private: false,
            ipv6: true,
            tcp_timeout_us: 604_800_000_000 + FRACTION_US,
            udp_timeout_us: 300_000_000 + FRACTION_US,
            establish_timeout_us: 30_000_000 + FRACTION_US,
            listener_timeout_us: 600_000_000 + FRACTION_US,
            handshake_timeout_us: 10_000_000 + FRACTION_US,
            socks: None,
            icmp: None,
            metrics: None,
            h2_conn_window: 8 * 1024 * 1024,
            h2_stream_window: 128 * 1024,
            h2_max_frame: 1 << 14,
            h1_upload_buffer: 32 * 1024,
            reverse_proxy: None,
            speedtest: false,
            main_hosts: vec![HostCfg {
                hostname: "vpn.example".into(),
                cert: 0,
                allowed_sni: vec![],
            }],
            ping_hosts: vec![],
            speed_hosts: vec![],
            rp_hosts: vec![],
        }
    }
}

pub fn cert_path(i: usize) -> String {
    format!("{}/cert{}.pem", ASSETS, i)
}

pub fn key_path(i: usize) -> String {
    format!("{}/key{}.pem", ASSETS, i)
}

/// Generate the certificates the simulated endpoint presents (setup step; idempotent)
pub fn gen_assets() -> std::io::Result<()> {
    std::fs::create_dir_all(ASSETS)?;
    for i in 0..N_CERTS {
        if std::path::Path::new(&cert_path(i)).exists() && std::path::Path::new(&key_path(i)).exists()
        {
            continue;
        }
        let ck = rcgen::generate_simple_self_signed(vec![format!("cert{}.sim", i)])
            .map_err(|e| std::io::Error::new(std::io::ErrorKind::Other, e.to_string()))?;
        std::fs::write(cert_path(i), ck.cert.pem())?;
        std::fs::write(key_path(i), ck.key_pair.serialize_pem())?;
    }
    Ok(())
}

fn hosts(v: &[HostCfg]) -> Vec<TlsHostInfo> {
    v.iter()
        .map(|h| TlsHostInfo {
            hostname: h.hostname.clone(),
            cert_chain_path: cert_path(h.cert),
            private_key_path: key_path(h.cert),
            allowed_sni: h.allowed_sni.clone(),
        })
        .collect()
}

pub fn tls_hosts(cfg: &EpConfig) -> Result<TlsHostsSettings, String> {
    TlsHostsSettings::builder()
        .main_hosts(hosts(&cfg.main_hosts))
        .ping_hosts(hosts(&cfg.ping_hosts))
        .speedtest_hosts(hosts(&cfg.speed_hosts))
        .reverse_proxy_hosts(hosts(&cfg.rp_hosts))
        .build()
        .map_err(|e| format!("{:?}", e))
}

pub fn settings(cfg: &EpConfig) -> Result<Settings, String> {
    // never a whole number of milliseconds (see FRACTION_US)
    let us = |v: u64| Duration::from_micros(if v % 1000 == 0 { v + FRACTION_US } else { v });
    let mut b = Settings::builder()
        .listen_address(cfg.listen)
        .map_err(|e| e.to_string())?
        .ipv6_available(cfg.ipv6)
        .allow_private_network_connections(cfg.allow_private)
        .tls_handshake_timeout(us(cfg.handshake_timeout_us))
        .client_listener_timeout(us(cfg.listener_timeout_us))
        .connection_establishment_timeout(us(cfg.establish_timeout_us))
        .tcp_connections_timeout(us(cfg.tcp_timeout_us))
        .udp_connections_timeout(us(cfg.udp_timeout_us))
        .speedtest_enable(cfg.speedtest)
        .listen_protocols(ListenProtocolSettings {
            http1: cfg.h1.then(|| {
                // the builder has no setter; go through serde, as a settings file would
                serde_json::from_value::<Http1Settings>(serde_json::json!({
                    "upload_buffer_size": cfg.h1_upload_buffer
                }))
                .unwrap_or_else(|_| Http1Settings::builder().build())
            }),
            http2: cfg.h2.then(|| {
                Http2Settings::builder()
                    .initial_connection_window_size(cfg.h2_conn_window)
                    .initial_stream_window_size(cfg.h2_stream_window)
                    .max_frame_size(cfg.h2_max_frame)
                    .build()
            }),
            quic: cfg.quic.then(|| QuicSettings::builder().build()),
        })
        .clients(
            cfg.users
                .iter()
                .map(|(u, p)| Client {
                    username: u.clone(),
                    password: p.clone(),
                })
                .collect(),
        );
    if let Some((addr, ext)) = cfg.socks {
        b = b.forwarder_settings(ForwardProtocolSettings::Socks5(
            Socks5ForwarderSettings::builder()
                .server_address(addr)
                .map_err(|e| e.to_string())?
                .extended_auth(ext)
                .build()
                .map_err(|e| format!("{:?}", e))?,
        ));
    }
    if let Some((timeout_us, cap)) = cfg.icmp {
        b = b.icmp(
            IcmpSettings::builder()
                .interface_name("sim0")
                .request_timeout(us(timeout_us))
                .recv_message_queue_capacity(cap)
                .build()
                .map_err(|e| format!("{:?}", e))?,
        );
    }
    if let Some((addr, timeout_us)) = cfg.metrics {
        b = b.metrics(
            MetricsSettings::builder()
                .listen_address(addr)
                .map_err(|e| e.to_string())?
                .request_timeout(us(timeout_us))
                .build()
                .map_err(|e| format!("{:?}", e))?,
        );
    }
    if let Some((addr, mask)) = &cfg.reverse_proxy {
        b = b.reverse_proxy(
            ReverseProxySettings::builder()
                .server_address(*addr)
                .map_err(|e| e.to_string())?
                .path_mask(mask.clone())
                .build()
                .map_err(|e| format!("{:?}", e))?,
        );
    }
    b.build().map_err(|e| format!("{:?}", e))
}

pub struct Endpoint {
    pub core: Arc<Core>,
    pub shutdown: Arc<Mutex<Shutdown>>,
}

pub fn build(cfg: &EpConfig, authenticator: Option<Arc<dyn Authenticator>>) -> Result<Endpoint, String> {
    // configured secrets must never reach the log (C20)
    for (u, p) in &cfg.users {
        use base64::Engine;
        crate::sim::canary("configured-password", p);
        crate::sim::canary(
            "proxy-authorization",
            &base64::engine::general_purpose::STANDARD.encode(format!("{}:{}", u, p)),
        );
    }
    let s = settings(cfg)?;
    let t = tls_hosts(cfg)?;
    let shutdown = Shutdown::new();
    let core = Core::new(s, authenticator, t, shutdown.clone()).map_err(|e| format!("{:?}", e))?;
    Ok(Endpoint {
        core: Arc::new(core),
        shutdown,
    })
}

/// The authenticator `endpoint/src/main.rs` builds: a registry when users are configured
pub fn registry(cfg: &EpConfig) -> Option<Arc<dyn Authenticator>> {
    if cfg.users.is_empty() {
        None
    } else {
        let clients: Vec<Client> = cfg
            .users
            .iter()
            .map(|(u, p)| Client {
                username: u.clone(),
                password: p.clone(),
            })
            .collect();
        Some(Arc::new(RegistryBasedAuthenticator::new(&clients)))
    }
}
