//! Parent/worker driver: sharding, aggregation, minimisation, replay, known findings,
//! determinism proof, evidence.

use crate::scenario::{Scenario, Tier};
use crate::scenarios;
use crate::sim::{self, Outcome, Violation};
use serde::{Deserialize, Serialize};
use serde_json::{json, Value};
use std::collections::{BTreeMap, BTreeSet, HashSet};
use std::io::{BufRead, BufReader, Write};
use std::process::{Command, Stdio};
use std::sync::atomic::Ordering;
use std::sync::mpsc;
use std::time::{Duration, Instant};

pub const DEFAULT_SEED: u64 = 20260925;
pub const VERIF: &str = "/verif";

pub fn tier_name(t: Tier) -> &'static str {
    match t {
        Tier::Quick => "quick",
        Tier::Thorough => "thorough",
    }
}

pub fn parse_tier(s: &str) -> Option<Tier> {
    match s {
        "quick" => Some(Tier::Quick),
        "thorough" => Some(Tier::Thorough),
        _ => None,
    }
}

pub fn jobs() -> usize {
    std::env::var("VERIF_JOBS")
        .ok()
        .and_then(|s| s.parse().ok())
        .unwrap_or_else(|| {
            std::thread::available_parallelism()
                .map(|n| n.get())
                .unwrap_or(4)
        })
        .max(1)
}

// ---------------------------------------------------------------------------------------
// worker
// ---------------------------------------------------------------------------------------

fn start_watchdog(budget: Duration) {
    std::thread::spawn(move || {
        let mut last = sim::PROGRESS.load(Ordering::Relaxed);
        let mut since = Instant::now();
        let mut run_idx = u64::MAX;
        let mut run_since = Instant::now();
        loop {
            std::thread::sleep(Duration::from_millis(200));
            // a run that keeps producing events for a minute of wall time is as stuck as
            // one that produces none (runs take milliseconds)
            let cur = sim::CURRENT_INDEX.load(Ordering::Relaxed);
            if cur != run_idx {
                run_idx = cur;
                run_since = Instant::now();
            } else if cur != u64::MAX && run_since.elapsed() > budget * 6 {
                println!("H {}", cur);
                let _ = std::io::stdout().flush();
                std::process::exit(3);
            }
            let now = sim::PROGRESS.load(Ordering::Relaxed);
            if now != last {
                last = now;
                since = Instant::now();
                continue;
            }
            let idx = sim::CURRENT_INDEX.load(Ordering::Relaxed);
            if idx != u64::MAX && since.elapsed() > budget {
                // stuck inside one run: no world event and no run boundary for `budget`
                println!("H {}", idx);
                let _ = std::io::stdout().flush();
                std::process::exit(3);
            }
        }
    });
}

fn watchdog_budget() -> Duration {
    Duration::from_secs(
        std::env::var("VERIF_WATCHDOG_S")
            .ok()
            .and_then(|s| s.parse().ok())
            .unwrap_or(10),
    )
}

pub fn worker(scn: &dyn Scenario, seed: u64, tier: Tier, start: u64, stride: u64, end: u64) {
    start_watchdog(watchdog_budget());
    let out = std::io::stdout();
    let mut counters: BTreeMap<String, u64> = BTreeMap::new();
    let mut cells: BTreeMap<String, u64> = BTreeMap::new();
    let mut i = start;
    while i < end {
        sim::CURRENT_INDEX.store(i, Ordering::Relaxed);
        {
            // which plan is in flight, should this process die
            let mut lock = out.lock();
            let _ = writeln!(lock, "B {}", i);
            let _ = lock.flush();
        }
        let plan = scn.generate(seed, i, tier);
        let o = sim::execute_isolated(scn, &plan);
        sim::CURRENT_INDEX.store(u64::MAX, Ordering::Relaxed);
        for (k, v) in &o.counters {
            *counters.entry(k.clone()).or_insert(0) += v;
        }
        for c in &o.cells {
            *cells.entry(c.clone()).or_insert(0) += 1;
        }
        let mut lock = out.lock();
        let flags = (o.nontrivial as u8) | ((o.inconclusive as u8) << 1);
        let _ = writeln!(
            lock,
            "R {} {:016x} {} {} {} {}",
            i, o.trace_hash, o.events, o.vtime_us, flags, o.heap_peak_delta
        );
        for v in &o.violations {
            let _ = writeln!(lock, "V {} {}", i, serde_json::to_string(v).unwrap());
        }
        i += stride;
    }
    let mut lock = out.lock();
    let _ = writeln!(
        lock,
        "S {}",
        json!({"counters": counters, "cells": cells})
    );
    let _ = lock.flush();
}

// ---------------------------------------------------------------------------------------
// batch (parent side)
// ---------------------------------------------------------------------------------------

#[derive(Default)]
pub struct Batch {
    pub scenario: String,
    pub evaluations: u64,
    pub hashes: Vec<(u64, u64)>,
    pub nontrivial_hashes: HashSet<u64>,
    pub all_hashes: HashSet<u64>,
    pub inconclusive: u64,
    pub events: u64,
    pub vtime_us: u64,
    pub max_heap: u64,
    pub counters: BTreeMap<String, u64>,
    pub cells: BTreeMap<String, u64>,
    pub violations: Vec<(u64, Violation)>,
    pub hangs: Vec<u64>,
    /// plans during which the worker process died (abort, signal)
    pub crashes: Vec<u64>,
    pub worker_failures: Vec<String>,
    pub wall_s: f64,
    pub stopped_early: bool,
}

fn self_exe() -> std::path::PathBuf {
    std::env::current_exe().expect("current_exe")
}

pub fn run_batch(
    scn: &dyn Scenario,
    seed: u64,
    tier: Tier,
    start: u64,
    end: u64,
    jobs: usize,
    deadline: Option<Instant>,
) -> Batch {
    let t0 = Instant::now();
    let mut b = Batch {
        scenario: scn.name().to_string(),
        ..Default::default()
    };
    let n = end.saturating_sub(start);
    if n == 0 {
        return b;
    }
    let jobs = jobs.min(n as usize).max(1);
    let (tx, rx) = mpsc::channel::<(usize, Option<String>)>();
    let mut children = Vec::new();
    for j in 0..jobs {
        let mut child = Command::new(self_exe())
            .args([
                "worker",
                scn.name(),
                &seed.to_string(),
                tier_name(tier),
                &(start + j as u64).to_string(),
                &jobs.to_string(),
                &end.to_string(),
            ])
            .stdin(Stdio::null())
            .stdout(Stdio::piped())
            .stderr(Stdio::null())
            .spawn()
            .expect("spawn worker");
        let stdout = child.stdout.take().unwrap();
        let tx = tx.clone();
        std::thread::spawn(move || {
            let r = BufReader::new(stdout);
            for line in r.lines().map_while(Result::ok) {
                let _ = tx.send((j, Some(line)));
            }
            let _ = tx.send((j, None));
        });
        children.push(child);
    }
    drop(tx);
    let mut done = 0;
    let mut finished_ok = vec![false; jobs];
    let mut in_flight: Vec<Option<u64>> = vec![None; jobs];
    let mut killed = false;
    while done < jobs {
        let msg = match rx.recv_timeout(Duration::from_millis(500)) {
            Ok(m) => m,
            Err(mpsc::RecvTimeoutError::Timeout) => {
                if let Some(d) = deadline {
                    if Instant::now() > d && !killed {
                        for c in children.iter_mut() {
                            let _ = c.kill();
                        }
                        killed = true;
                    }
                }
                continue;
            }
            Err(_) => break,
        };
        match msg {
            (_, None) => done += 1,
            (j, Some(line)) => {
                let mut it = line.splitn(2, ' ');
                let tag = it.next().unwrap_or("");
                let rest = it.next().unwrap_or("");
                match tag {
                    "B" => in_flight[j] = rest.trim().parse().ok(),
                    "R" => {
                        in_flight[j] = None;
                        let f: Vec<&str> = rest.split(' ').collect();
                        if f.len() >= 6 {
                            let idx: u64 = f[0].parse().unwrap_or(0);
                            let h = u64::from_str_radix(f[1], 16).unwrap_or(0);
                            let flags: u8 = f[4].parse().unwrap_or(0);
                            b.evaluations += 1;
                            b.hashes.push((idx, h));
                            b.all_hashes.insert(h);
                            if flags & 1 != 0 {
                                b.nontrivial_hashes.insert(h);
                            }
                            if flags & 2 != 0 {
                                b.inconclusive += 1;
                            }
                            b.events += f[2].parse::<u64>().unwrap_or(0);
                            b.vtime_us += f[3].parse::<u64>().unwrap_or(0);
                            b.max_heap = b.max_heap.max(f[5].parse::<u64>().unwrap_or(0));
                        }
                    }
                    "V" => {
                        let mut it = rest.splitn(2, ' ');
                        let idx: u64 = it.next().unwrap_or("0").parse().unwrap_or(0);
                        if let Ok(v) = serde_json::from_str::<Violation>(it.next().unwrap_or("")) {
                            b.violations.push((idx, v));
                        }
                    }
                    "H" => {
                        if let Ok(idx) = rest.trim().parse::<u64>() {
                            b.hangs.push(idx);
                        }
                        // a code base that hangs on many plans would cost one watchdog
                        // period per plan: a few witnesses are enough
                        if b.hangs.len() >= 3 && !killed {
                            for c in children.iter_mut() {
                                let _ = c.kill();
                            }
                            killed = true;
                            b.stopped_early = true;
                        }
                    }
                    "S" => {
                        finished_ok[j] = true;
                        if let Ok(v) = serde_json::from_str::<Value>(rest) {
                            for (k, n) in v["counters"].as_object().into_iter().flatten() {
                                *b.counters.entry(k.clone()).or_insert(0) += n.as_u64().unwrap_or(0);
                            }
                            for (k, n) in v["cells"].as_object().into_iter().flatten() {
                                *b.cells.entry(k.clone()).or_insert(0) += n.as_u64().unwrap_or(0);
                            }
                        }
                    }
                    _ => {}
                }
            }
        }
    }
    for (j, mut c) in children.into_iter().enumerate() {
        let st = c.wait();
        let code = st.ok().and_then(|s| s.code());
        if !finished_ok[j] && !killed {
            if code == Some(3) {
                // hang: reported through an H line; the rest of this shard was not run
            } else if let Some(idx) = in_flight[j] {
                // the process died inside a run (abort after a panic in a destructor, signal)
                b.crashes.push(idx);
            } else {
                b.worker_failures
                    .push(format!("worker {} ended with {:?} before its summary", j, code));
            }
        }
    }
    if b.crashes.len() > 8 {
        b.stopped_early = true;
    }
    // a worker that stopped at a hang leaves the rest of its shard unexplored: run it
    if (!b.hangs.is_empty() || !b.crashes.is_empty()) && !killed && !b.stopped_early {
        let mut hangs = b.hangs.clone();
        hangs.extend(b.crashes.iter());
        for h in hangs {
            let shard = (h - start) % jobs as u64;
            let next = h + jobs as u64;
            if next < end {
                // continue that shard in a fresh worker (same stride)
                let sub = run_shard(scn, seed, tier, next, jobs as u64, end, shard);
                merge(&mut b, sub);
            }
        }
    }
    b.wall_s = t0.elapsed().as_secs_f64();
    b
}

fn run_shard(
    scn: &dyn Scenario,
    seed: u64,
    tier: Tier,
    start: u64,
    stride: u64,
    end: u64,
    _shard: u64,
) -> Batch {
    // single worker with an explicit stride; recursion handles further hangs
    let mut b = Batch::default();
    let out = Command::new(self_exe())
        .args([
            "worker",
            scn.name(),
            &seed.to_string(),
            tier_name(tier),
            &start.to_string(),
            &stride.to_string(),
            &end.to_string(),
        ])
        .stdin(Stdio::null())
        .stderr(Stdio::null())
        .output()
        .expect("spawn worker");
    let text = String::from_utf8_lossy(&out.stdout);
    let mut hang = None;
    let mut flying: Option<u64> = None;
    let mut summary = false;
    for line in text.lines() {
        let mut it = line.splitn(2, ' ');
        let tag = it.next().unwrap_or("");
        let rest = it.next().unwrap_or("");
        match tag {
            "B" => flying = rest.trim().parse().ok(),
            "R" => {
                flying = None;
                let f: Vec<&str> = rest.split(' ').collect();
                if f.len() >= 6 {
                    let idx: u64 = f[0].parse().unwrap_or(0);
                    let h = u64::from_str_radix(f[1], 16).unwrap_or(0);
                    let flags: u8 = f[4].parse().unwrap_or(0);
                    b.evaluations += 1;
                    b.hashes.push((idx, h));
                    b.all_hashes.insert(h);
                    if flags & 1 != 0 {
                        b.nontrivial_hashes.insert(h);
                    }
                    if flags & 2 != 0 {
                        b.inconclusive += 1;
                    }
                    b.events += f[2].parse::<u64>().unwrap_or(0);
                    b.vtime_us += f[3].parse::<u64>().unwrap_or(0);
                }
            }
            "V" => {
                let mut it = rest.splitn(2, ' ');
                let idx: u64 = it.next().unwrap_or("0").parse().unwrap_or(0);
                if let Ok(v) = serde_json::from_str::<Violation>(it.next().unwrap_or("")) {
                    b.violations.push((idx, v));
                }
            }
            "H" => hang = rest.trim().parse::<u64>().ok(),
            "S" => {
                summary = true;
                if let Ok(v) = serde_json::from_str::<Value>(rest) {
                    for (k, n) in v["counters"].as_object().into_iter().flatten() {
                        *b.counters.entry(k.clone()).or_insert(0) += n.as_u64().unwrap_or(0);
                    }
                    for (k, n) in v["cells"].as_object().into_iter().flatten() {
                        *b.cells.entry(k.clone()).or_insert(0) += n.as_u64().unwrap_or(0);
                    }
                }
            }
            _ => {}
        }
    }
    if hang.is_none() && !summary {
        if let Some(c) = flying {
            b.crashes.push(c);
            if c + stride < end {
                let sub = run_shard(scn, seed, tier, c + stride, stride, end, 0);
                merge(&mut b, sub);
            }
        }
    }
    if let Some(h) = hang {
        b.hangs.push(h);
        if h + stride < end {
            let sub = run_shard(scn, seed, tier, h + stride, stride, end, 0);
            merge(&mut b, sub);
        }
    }
    b
}

fn merge(a: &mut Batch, b: Batch) {
    a.evaluations += b.evaluations;
    a.hashes.extend(b.hashes);
    a.all_hashes.extend(b.all_hashes);
    a.nontrivial_hashes.extend(b.nontrivial_hashes);
    a.inconclusive += b.inconclusive;
    a.events += b.events;
    a.vtime_us += b.vtime_us;
    a.max_heap = a.max_heap.max(b.max_heap);
    for (k, v) in b.counters {
        *a.counters.entry(k).or_insert(0) += v;
    }
    for (k, v) in b.cells {
        *a.cells.entry(k).or_insert(0) += v;
    }
    a.violations.extend(b.violations);
    for h in b.hangs {
        if !a.hangs.contains(&h) {
            a.hangs.push(h);
        }
    }
    for h in b.crashes {
        if !a.crashes.contains(&h) {
            a.crashes.push(h);
        }
    }
    a.worker_failures.extend(b.worker_failures);
}

// ---------------------------------------------------------------------------------------
// executing one plan in a child process (hang- and crash-proof)
// ---------------------------------------------------------------------------------------

#[derive(Debug, Clone, Serialize, Deserialize)]
pub struct ExecResult {
    pub outcome: Option<Outcome>,
    pub hang: bool,
    pub crashed: bool,
    #[serde(default)]
    pub trace: Vec<Value>,
    /// the process died: location of the first panic it reported
    #[serde(default)]
    pub abort_site: Option<String>,
}

pub const HANG_KEY: &str = "no-progress";

pub fn exec_in_child(scenario: &str, plan: &Value, with_trace: bool, budget_s: u64) -> ExecResult {
    let dir = format!("{}/work", VERIF);
    let _ = std::fs::create_dir_all(&dir);
    let path = format!("{}/exec-{}-{:x}.json", dir, std::process::id(), rand_tag());
    let doc = json!({"scenario": scenario, "plan": plan});
    std::fs::write(&path, serde_json::to_vec(&doc).unwrap()).expect("write plan");
    let mut cmd = Command::new(self_exe());
    cmd.arg("exec").arg(&path);
    if with_trace {
        cmd.arg("--trace");
    }
    cmd.env("VERIF_WATCHDOG_S", budget_s.to_string());
    cmd.env("VERIF_PANIC_SITES", "1");
    let out = cmd.stdin(Stdio::null()).stderr(Stdio::piped()).output();
    let _ = std::fs::remove_file(&path);
    let out = match out {
        Ok(o) => o,
        Err(_) => {
            return ExecResult {
                outcome: None,
                hang: false,
                crashed: true,
                trace: vec![],
                abort_site: None,
            }
        }
    };
    if out.status.code() == Some(3) {
        return ExecResult {
            outcome: None,
            hang: true,
            crashed: false,
            trace: vec![],
            abort_site: None,
        };
    }
    let text = String::from_utf8_lossy(&out.stdout);
    for line in text.lines() {
        if let Some(rest) = line.strip_prefix("O ") {
            if let Ok(r) = serde_json::from_str::<ExecResult>(rest) {
                return r;
            }
        }
    }
    let err = String::from_utf8_lossy(&out.stderr);
    let site = err
        .lines()
        .find_map(|l| l.strip_prefix("PANIC-SITE "))
        .map(|l| match l.rsplit_once("registry/src/") {
            // drop the registry directory name, keep crate-version/path:line
            Some((_, rest)) => rest.split_once('/').map(|x| x.1).unwrap_or(rest).to_string(),
            None => l.rsplit("/repo/").next().unwrap_or(l).to_string(),
        });
    ExecResult {
        outcome: None,
        hang: false,
        crashed: true,
        trace: vec![],
        abort_site: Some(site.unwrap_or_else(|| "unknown".into())),
    }
}

pub fn abort_key(r: &ExecResult) -> Option<String> {
    if r.crashed {
        Some(format!("abort@{}", r.abort_site.clone().unwrap_or_else(|| "unknown".into())))
    } else {
        None
    }
}

fn rand_tag() -> u64 {
    use std::sync::atomic::AtomicU64;
    static N: AtomicU64 = AtomicU64::new(0);
    N.fetch_add(1, Ordering::Relaxed)
}

/// `exec` sub-command: run one plan file, print the outcome
pub fn exec_main(path: &str, with_trace: bool, echo: bool) -> i32 {
    let doc: Value = match std::fs::read(path)
        .ok()
        .and_then(|b| serde_json::from_slice(&b).ok())
    {
        Some(v) => v,
        None => {
            eprintln!("cannot read plan file {}", path);
            return 2;
        }
    };
    let scn = match scenarios::by_name(doc["scenario"].as_str().unwrap_or("")) {
        Some(s) => s,
        None => {
            eprintln!("unknown scenario");
            return 2;
        }
    };
    start_watchdog(watchdog_budget());
    if echo {
        sim::set_logging(false, true);
        sim::set_quiet_panics(false);
    }
    sim::CURRENT_INDEX.store(0, Ordering::Relaxed);
    crate::world::KEEP_TRACE.store(with_trace, Ordering::Relaxed);
    let o = sim::execute_isolated(scn, &doc["plan"]);
    sim::CURRENT_INDEX.store(u64::MAX, Ordering::Relaxed);
    let trace = if with_trace {
        crate::world::take_kept_trace()
            .into_iter()
            .map(|e| json!([e.t_us, format!("{:?}", e.kind), e.obj, e.a, e.b]))
            .collect()
    } else {
        vec![]
    };
    let r = ExecResult {
        outcome: Some(o),
        hang: false,
        crashed: false,
        trace,
        abort_site: None,
    };
    println!("O {}", serde_json::to_string(&r).unwrap());
    0
}

fn violates(r: &ExecResult, property: &str, key: &str) -> bool {
    if key == HANG_KEY {
        return r.hang;
    }
    if key.starts_with("abort@") {
        return abort_key(r).as_deref() == Some(key);
    }
    r.outcome
        .as_ref()
        .map(|o| {
            o.violations
                .iter()
                .any(|v| v.property == property && v.key == key)
        })
        .unwrap_or(false)
}

// ---------------------------------------------------------------------------------------
// minimisation: generic delta debugging over the JSON plan
// ---------------------------------------------------------------------------------------

fn paths(v: &Value, cur: &mut Vec<String>, out: &mut Vec<Vec<String>>) {
    match v {
        Value::Array(a) => {
            out.push(cur.clone());
            for (i, x) in a.iter().enumerate() {
                cur.push(i.to_string());
                paths(x, cur, out);
                cur.pop();
            }
        }
        Value::Object(o) => {
            out.push(cur.clone());
            for (k, x) in o {
                cur.push(k.clone());
                paths(x, cur, out);
                cur.pop();
            }
        }
        _ => out.push(cur.clone()),
    }
}

fn get_mut<'a>(v: &'a mut Value, path: &[String]) -> Option<&'a mut Value> {
    let mut cur = v;
    for p in path {
        cur = match cur {
            Value::Array(a) => a.get_mut(p.parse::<usize>().ok()?)?,
            Value::Object(o) => o.get_mut(p)?,
            _ => return None,
        };
    }
    Some(cur)
}

fn candidates(plan: &Value) -> Vec<Value> {
    let mut ps = Vec::new();
    paths(plan, &mut Vec::new(), &mut ps);
    let mut out = Vec::new();
    // 1. drop array elements (big structural steps first)
    for p in &ps {
        let mut probe = plan.clone();
        if let Some(Value::Array(a)) = get_mut(&mut probe, p) {
            if a.len() > 1 || (a.len() == 1 && p.last().map(|s| s.ends_with('s')).unwrap_or(false)) {
                for i in 0..a.len() {
                    let mut c = plan.clone();
                    if let Some(Value::Array(a2)) = get_mut(&mut c, p) {
                        a2.remove(i);
                    }
                    out.push(c);
                }
            }
        }
    }
    // 2. simplify scalars and options
    for p in &ps {
        let last = p.last().map(String::as_str).unwrap_or("");
        // configuration knobs keep their values: a zero time-out or window is a different
        // system, not a smaller instance of the same failure
        if last == "seed"
            || last == "kind"
            || ["timeout", "window", "cap", "max_frame", "buffer", "every"]
                .iter()
                .any(|k| last.contains(k))
        {
            continue;
        }
        let mut probe = plan.clone();
        let cur = match get_mut(&mut probe, p) {
            Some(c) => c.clone(),
            None => continue,
        };
        let mut push = |nv: Value| {
            let mut c = plan.clone();
            if let Some(slot) = get_mut(&mut c, p) {
                if *slot != nv {
                    *slot = nv;
                    out.push(c);
                }
            }
        };
        match &cur {
            Value::Number(n) => {
                if let Some(u) = n.as_u64() {
                    if u > 0 {
                        push(json!(0));
                    }
                    if u > 1 {
                        push(json!(1));
                        push(json!(u / 2));
                    }
                    if u > 16 {
                        push(json!(u - u / 8));
                    }
                }
            }
            Value::Bool(true) => push(json!(false)),
            Value::Object(_) | Value::Array(_) => push(Value::Null),
            Value::String(s) if !s.is_empty() => {
                push(json!(""));
                if s.chars().count() > 1 {
                    // halve by characters: plans hold multi-byte strings (user names, passwords)
                    let half: String = s.chars().take(s.chars().count() / 2).collect();
                    push(json!(half));
                }
            }
            _ => {}
        }
    }
    out
}

pub fn minimise(
    scenario: &str,
    plan: &Value,
    property: &str,
    key: &str,
    max_execs: usize,
) -> (Value, usize) {
    let mut best = plan.clone();
    let mut execs = 0;
    // shrinking is a convenience: it never takes more than two minutes per violation
    let started = Instant::now();
    let wall_cap = Duration::from_secs(120);
    let budget = if key == HANG_KEY { 3 } else { 20 };
    let max_execs = if key == HANG_KEY { max_execs.min(60) } else { max_execs };
    let mut improved = true;
    while improved && execs < max_execs && started.elapsed() <= wall_cap {
        improved = false;
        let cands = candidates(&best);
        for c in cands {
            if execs >= max_execs || started.elapsed() > wall_cap {
                break;
            }
            let size_c = serde_json::to_string(&c).map(|s| s.len()).unwrap_or(usize::MAX);
            let size_b = serde_json::to_string(&best).map(|s| s.len()).unwrap_or(0);
            if size_c > size_b {
                continue;
            }
            execs += 1;
            let r = exec_in_child(scenario, &c, false, budget);
            if violates(&r, property, key) {
                best = c;
                improved = true;
                break;
            }
        }
    }
    (best, execs)
}

// ---------------------------------------------------------------------------------------
// known findings
// ---------------------------------------------------------------------------------------

#[derive(Debug, Clone, Serialize, Deserialize)]
pub struct Finding {
    pub property: String,
    pub key: String,
    /// "known" or "fixed"
    pub status: String,
    #[serde(default)]
    pub commit: Option<String>,
    pub description: String,
}

pub fn load_findings() -> Vec<Finding> {
    let path = format!("{}/known_findings.json", VERIF);
    std::fs::read(&path)
        .ok()
        .and_then(|b| serde_json::from_slice::<Vec<Finding>>(&b).ok())
        .unwrap_or_default()
}

// ---------------------------------------------------------------------------------------
// replay files
// ---------------------------------------------------------------------------------------

pub fn write_replay(
    property: &str,
    scenario: &str,
    seed: u64,
    index: u64,
    tier: Tier,
    original: &Value,
    minimised: &Value,
    r: &ExecResult,
    key: &str,
    execs: usize,
) -> String {
    let dir = format!("{}/replays", VERIF);
    let _ = std::fs::create_dir_all(&dir);
    let (trace_hash, detail, counters) = match &r.outcome {
        Some(o) => (
            o.trace_hash,
            o.violations
                .iter()
                .find(|v| v.key == key)
                .map(|v| v.detail.clone())
                .unwrap_or_default(),
            json!(o.counters),
        ),
        None => (0, "the run makes no progress: wall-clock watchdog expired".to_string(), json!({})),
    };
    let tag = crate::prng::fnv64(format!("{}{}{}", scenario, key, minimised).as_bytes());
    let path = format!("{}/{}-{:012x}.json", dir, property, tag & 0xffff_ffff_ffff);
    let doc = json!({
        "property": property,
        "scenario": scenario,
        "seed": seed,
        "index": index,
        "tier": tier_name(tier),
        "plan": minimised,
        "original_plan": original,
        "minimisation_executions": execs,
        "expect": {"property": property, "key": key, "trace_hash": format!("{:016x}", trace_hash)},
        "detail": detail,
        "fault_counters": counters,
        "schedule_and_fault_trace": r.trace,
        "replay": format!("{}/bin/ttsim replay {}", VERIF, path),
    });
    std::fs::write(&path, serde_json::to_vec_pretty(&doc).unwrap()).expect("write replay");
    path
}

/// `replay` sub-command: re-execute a replay file in this (fresh) process
pub fn replay_main(path: &str, echo: bool) -> i32 {
    let doc: Value = match std::fs::read(path)
        .ok()
        .and_then(|b| serde_json::from_slice(&b).ok())
    {
        Some(v) => v,
        None => {
            eprintln!("cannot read {}", path);
            return 2;
        }
    };
    let scenario = doc["scenario"].as_str().unwrap_or("").to_string();
    let property = doc["expect"]["property"].as_str().unwrap_or("").to_string();
    let key = doc["expect"]["key"].as_str().unwrap_or("").to_string();
    let want_hash = doc["expect"]["trace_hash"].as_str().unwrap_or("").to_string();
    if echo {
        // in-process, with the endpoint's log echoed: for reading a failure
        let tmp = format!("{}/work/replay-{}.json", VERIF, std::process::id());
        let _ = std::fs::create_dir_all(format!("{}/work", VERIF));
        let _ = std::fs::write(
            &tmp,
            serde_json::to_vec(&json!({"scenario": scenario, "plan": doc["plan"]})).unwrap(),
        );
        let rc = exec_main(&tmp, true, true);
        let _ = std::fs::remove_file(&tmp);
        return rc;
    }
    let r = exec_in_child(&scenario, &doc["plan"], false, 20);
    let reproduced = violates(&r, &property, &key);
    let hash = r
        .outcome
        .as_ref()
        .map(|o| format!("{:016x}", o.trace_hash))
        .unwrap_or_else(|| format!("{:016x}", 0));
    println!(
        "replay {}: violation {} (key {}), trace hash {} (expected {})",
        path,
        if reproduced { "REPRODUCED" } else { "not reproduced" },
        key,
        hash,
        want_hash
    );
    if let Some(o) = &r.outcome {
        for v in &o.violations {
            println!("  {} {}: {}", v.property, v.key, v.detail);
        }
    }
    if reproduced {
        println!("VIOLATION property={} replay={}", property, path);
        if hash != want_hash {
            println!("note: trace hash differs from the recorded one");
        }
        1
    } else {
        0
    }
}

// ---------------------------------------------------------------------------------------
// checks
// ---------------------------------------------------------------------------------------

pub struct CheckDef {
    pub property: &'static str,
    /// (scenario, share of the tier budget in percent)
    pub scenarios: Vec<(&'static str, u64)>,
    pub level: &'static str,
    pub rule: &'static str,
    pub assumptions: Vec<&'static str>,
    pub real: Vec<&'static str>,
    pub simulated: Vec<&'static str>,
    pub not_run: Vec<&'static str>,
}

pub struct CheckResult {
    pub exit: i32,
}

fn trace_sample(scn: &dyn Scenario, seed: u64, tier: Tier, idxs: &[u64]) -> Vec<Value> {
    idxs.iter()
        .map(|i| json!({"scenario": scn.name(), "index": i, "plan": scn.generate(seed, *i, tier)}))
        .collect()
}

pub fn run_check(def: &CheckDef, tier: Tier, seed: u64, scale: f64) -> CheckResult {
    let t0 = Instant::now();
    let jobs = jobs();
    let findings = load_findings();
    let wall_cap: Option<Instant> = std::env::var("VERIF_WALL_S")
        .ok()
        .and_then(|s| s.parse::<u64>().ok())
        .map(|s| Instant::now() + Duration::from_secs(s));

    let mut total = Batch::default();
    let mut samples = Vec::new();
    let mut per_scenario = Vec::new();
    let mut det_compared = 0u64;
    let mut det_mismatch = 0u64;
    let mut harness_problems: Vec<String> = Vec::new();
    let mut reported: Vec<(String, String, String)> = Vec::new(); // (scenario, key, replay)
    let mut known_lines: BTreeSet<String> = BTreeSet::new();
    let mut other_props: BTreeMap<String, u64> = BTreeMap::new();
    let mut minimised = 0usize;

    for (name, share) in &def.scenarios {
        let scn = match scenarios::by_name(name) {
            Some(s) => s,
            None => {
                harness_problems.push(format!("unknown scenario {}", name));
                continue;
            }
        };
        let n = ((scn.budget(tier) as f64) * (*share as f64 / 100.0) * scale).ceil() as u64;
        let n = n.max(scn.systematic(tier)).max(8);
        let b = run_batch(scn, seed, tier, 0, n, jobs, wall_cap);

        // determinism proof: a sample re-executed in a different process layout
        let det_n = match tier {
            Tier::Quick => 256.min(n),
            Tier::Thorough => 2048.min(n),
        };
        let d = run_batch(scn, seed, tier, 0, det_n, 1.max(jobs / 5), wall_cap);
        let first: BTreeMap<u64, u64> = b.hashes.iter().cloned().collect();
        for (i, h) in &d.hashes {
            if let Some(h0) = first.get(i) {
                det_compared += 1;
                if h0 != h {
                    det_mismatch += 1;
                    harness_problems.push(format!(
                        "determinism: scenario {} index {} trace {:016x} != {:016x}",
                        name, i, h0, h
                    ));
                }
            }
        }

        samples.extend(trace_sample(scn, seed, tier, &[0, 1, n / 2]));
        per_scenario.push(json!({
            "scenario": name,
            "evaluations": b.evaluations,
            "distinct_traces": b.all_hashes.len(),
            "distinct_nontrivial": b.nontrivial_hashes.len(),
            "inconclusive": b.inconclusive,
            "wall_s": b.wall_s,
            "simulated_s": b.vtime_us as f64 / 1e6,
            "runs_per_hour": if b.wall_s > 0.0 { (b.evaluations as f64 / b.wall_s * 3600.0) as u64 } else { 0 },
        }));

        for w in &b.worker_failures {
            harness_problems.push(format!("{}: {}", name, w));
        }

        // violations: one report per distinct (property, key)
        let mut seen: BTreeSet<(String, String)> = BTreeSet::new();
        let mut viols: Vec<(u64, Violation)> = b.violations.clone();
        for h in &b.hangs {
            viols.push((
                *h,
                Violation {
                    property: hang_property(def.property).to_string(),
                    key: HANG_KEY.to_string(),
                    detail: "run makes no progress (wall-clock watchdog)".into(),
                },
            ));
        }
        for c in &b.crashes {
            // find out where it dies: re-execute the plan in a child and read its last words
            let plan = scn.generate(seed, *c, tier);
            let r = exec_in_child(name, &plan, false, 20);
            match abort_key(&r) {
                Some(key) => viols.push((
                    *c,
                    Violation {
                        property: "C09".to_string(),
                        key,
                        detail: "the process running the endpoint aborted (panic while panicking)".into(),
                    },
                )),
                None => harness_problems.push(format!(
                    "{} index {}: worker died but the plan does not crash in a fresh process",
                    name, c
                )),
            }
        }
        viols.sort_by_key(|(i, _)| *i);
        for (idx, v) in viols {
            if v.property == "HARNESS" {
                harness_problems.push(format!("{} index {}: {} {}", name, idx, v.key, v.detail));
                continue;
            }
            if v.property != def.property {
                *other_props.entry(v.property.clone()).or_insert(0) += 1;
                continue;
            }
            if !seen.insert((v.property.clone(), v.key.clone())) {
                continue;
            }
            if let Some(f) = findings
                .iter()
                .find(|f| f.status == "known" && f.property == v.property && f.key == v.key)
            {
                known_lines.insert(format!(
                    "KNOWN-FINDING: property={} {} [{}]",
                    f.property, f.description, f.key
                ));
                continue;
            }
            // unknown violation: minimise, write the replay, confirm it in a fresh process
            let plan = scn.generate(seed, idx, tier);
            let first = exec_in_child(name, &plan, false, 20);
            if !violates(&first, &v.property, &v.key) {
                harness_problems.push(format!(
                    "{} index {}: violation {} did not reproduce in a fresh process",
                    name, idx, v.key
                ));
                continue;
            }
            // the first few violations of a check are shrunk; a tree that is broken in many
            // ways gets the remaining ones reported with the plan that found them
            minimised += 1;
            let (min_plan, execs) = if minimised <= 6 {
                minimise(name, &plan, &v.property, &v.key, 300)
            } else {
                (plan.clone(), 0)
            };
            let confirm = exec_in_child(name, &min_plan, true, 20);
            if !violates(&confirm, &v.property, &v.key) {
                harness_problems.push(format!(
                    "{} index {}: minimised plan for {} did not reproduce",
                    name, idx, v.key
                ));
                continue;
            }
            let confirm2 = exec_in_child(name, &min_plan, false, 20);
            let same = match (&confirm.outcome, &confirm2.outcome) {
                (Some(a), Some(b)) => a.trace_hash == b.trace_hash,
                (None, None) => confirm.hang == confirm2.hang,
                _ => false,
            };
            let mut unstable_trace = false;
            if !same {
                // the violation reproduced twice with different event traces: if it keeps
                // reproducing in fresh processes it is reported - the code under test then
                // behaves nondeterministically outside the seams (e.g. iteration order of a
                // randomly keyed hash map); if it does not, nothing about it is to be believed
                let again = (0..3).all(|_| violates(&exec_in_child(name, &min_plan, false, 20), &v.property, &v.key));
                if !again {
                    harness_problems.push(format!(
                        "{} index {}: replay of {} is not exactly repeatable",
                        name, idx, v.key
                    ));
                    continue;
                }
                unstable_trace = true;
            }
            let path = write_replay(
                &v.property, name, seed, idx, tier, &plan, &min_plan, &confirm, &v.key, execs,
            );
            if unstable_trace {
                if let Some(mut doc) = std::fs::read(&path).ok().and_then(|b| serde_json::from_slice::<Value>(&b).ok()) {
                    doc["repeatability"] = json!("the violation reproduced in 5 of 5 fresh processes, but their event traces differ: the code under test behaves nondeterministically outside the simulator's seams; the recorded trace hash is one of several");
                    let _ = std::fs::write(&path, serde_json::to_vec_pretty(&doc).unwrap());
                }
                println!("note: {} reproduces in every fresh process but with differing traces (nondeterminism inside the code under test)", v.key);
            }
            reported.push((name.to_string(), v.key.clone(), path));
        }
        merge(&mut total, b);
    }

    // probes / fault kinds stuck at zero in a thorough run are a harness defect
    let wall_s = t0.elapsed().as_secs_f64();
    let exit = if !harness_problems.is_empty() {
        2
    } else if !reported.is_empty() {
        1
    } else {
        0
    };

    let distinct_nontrivial = total.nontrivial_hashes.len() as u64;
    let evidence = json!({
        "property_id": def.property,
        "tier": tier_name(tier),
        "seed": seed,
        "level": def.level,
        "coverage": {
            "evaluations": total.evaluations,
            "distinct_nontrivial": distinct_nontrivial,
            "rule": def.rule,
            "samples": samples,
            "distinct_traces": total.all_hashes.len(),
            "per_scenario": per_scenario,
            "simulated_time_s": total.vtime_us as f64 / 1e6,
            "world_events": total.events,
            "runs_per_hour": if wall_s > 0.0 { (total.evaluations as f64 / wall_s * 3600.0) as u64 } else { 0 },
            "fault_kinds_fired_and_probes": total.counters,
            "decision_cells_hit": total.cells,
            "inconclusive_runs": total.inconclusive,
            "max_heap_growth_bytes_in_one_run": total.max_heap,
            "determinism_proof": {"runs_compared_across_process_layouts": det_compared, "mismatches": det_mismatch},
            "components": {"real_code": def.real, "simulated": def.simulated, "not_run": def.not_run},
            "violations_of_other_properties_seen": other_props,
            "known_findings_seen": known_lines.iter().collect::<Vec<_>>(),
            "exhaustive": false,
        },
        "assumptions": def.assumptions,
        "wall_s": wall_s,
        "violations": reported.len(),
    });
    let _ = std::fs::create_dir_all(format!("{}/evidence", VERIF));
    let epath = format!("{}/evidence/{}.json", VERIF, def.property);
    if exit != 2 {
        std::fs::write(&epath, serde_json::to_vec_pretty(&evidence).unwrap()).expect("write evidence");
        if tier == Tier::Thorough {
            // quick runs rewrite the evidence file; keep what the deep exploration covered as well
            let _ = std::fs::create_dir_all(format!("{}/evidence_thorough", VERIF));
            let _ = std::fs::write(
                format!("{}/evidence_thorough/{}.json", VERIF, def.property),
                serde_json::to_vec_pretty(&evidence).unwrap(),
            );
        }
    }

    println!(
        "check {} {}: {} runs, {} distinct non-trivial traces, {:.1} s simulated, {:.1} s wall, determinism {}/{} equal",
        def.property,
        tier_name(tier),
        total.evaluations,
        distinct_nontrivial,
        total.vtime_us as f64 / 1e6,
        wall_s,
        det_compared - det_mismatch,
        det_compared
    );
    for l in &known_lines {
        println!("{}", l);
    }
    for p in &harness_problems {
        println!("HARNESS-ERROR: {}", p);
    }
    if exit == 1 {
        for (scn, key, path) in &reported {
            println!("violation in scenario {}: {}", scn, key);
            println!("VIOLATION property={} replay={}", def.property, path);
        }
    }
    CheckResult { exit }
}

fn hang_property(check_property: &str) -> &str {
    // a run that never yields is a C08 matter on the HTTP/1.1 transport and a C09 matter
    // elsewhere; the check that sees it reports it under its own property when that is one
    // of the two, otherwise under C09
    match check_property {
        "C08" => "C08",
        _ => "C09",
    }
}
