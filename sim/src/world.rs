//! The simulated world: everything outside of the endpoint. Implements
//! `trusttunnel::verif::os::World`. All state lives behind one thread-local; one OS thread
//! executes one run at a time, so the `Mutex`es below are never contended — they only make
//! the handles `Send + Sync` as the endpoint's futures require.

use crate::prng::{fnv64, fnv64_from, Rng};
use bytes::Bytes;
use std::cell::RefCell;
use std::collections::{BTreeMap, HashMap, VecDeque};
use std::io;
use std::io::ErrorKind;
use std::net::{IpAddr, Ipv4Addr, Ipv6Addr, SocketAddr};
use std::rc::Rc;
use std::sync::{Arc, Mutex};
use std::task::{Context, Poll, Waker};
use std::time::Duration;
use tokio::io::ReadBuf;
use trusttunnel::verif::os;

// ---------------------------------------------------------------------------------------
// trace
// ---------------------------------------------------------------------------------------

#[derive(Clone, Copy, Debug, PartialEq, Eq)]
#[repr(u8)]
pub enum Ev {
    TcpConnectStart = 1,
    TcpConnectDone = 2,
    TcpConnectFail = 3,
    TcpRead = 4,
    TcpWrite = 5,
    TcpShutdown = 6,
    TcpCloseRead = 7,
    TcpCloseWrite = 8,
    TcpFault = 9,
    PeerWrite = 10,
    PeerRead = 11,
    PeerFin = 12,
    PeerRst = 13,
    DnsQuery = 14,
    DnsAnswer = 15,
    UdpBind = 16,
    UdpConnect = 17,
    UdpSend = 18,
    UdpRecv = 19,
    UdpClose = 20,
    UdpDeliver = 21,
    UdpFault = 22,
    IcmpOpen = 23,
    IcmpSend = 24,
    IcmpRecv = 25,
    IcmpDeliver = 26,
    Listen = 27,
    Accept = 28,
    ClientConnect = 29,
    Note = 30,
    TcpFlush = 31,
    TcpWouldBlock = 32,
    IcmpClose = 33,
    ListenClose = 34,
}

#[derive(Clone, Debug)]
pub struct Event {
    pub t_us: u64,
    pub kind: Ev,
    pub obj: u32,
    pub a: u64,
    pub b: u64,
}

// ---------------------------------------------------------------------------------------
// plans the scenario gives to the world
// ---------------------------------------------------------------------------------------

#[derive(Clone, Debug)]
pub enum ConnectOutcome {
    Ok,
    Refused,
    NetUnreachable,
    HostUnreachable,
    TimedOut,
    Never,
    Emfile,
    /// an error with neither a special errno nor a special kind
    OtherError,
}

#[derive(Clone, Debug, Default)]
pub enum Cut {
    /// as much as is available / offered
    #[default]
    All,
    Fixed(usize),
    /// uniformly random in `lo..=hi` per call
    Random(usize, usize),
}

/// What the endpoint-side handle of a connection does beyond moving bytes
#[derive(Clone, Debug)]
pub struct EpFaults {
    /// max bytes handed out per read call
    pub read_cut: Cut,
    /// max bytes accepted per write call
    pub write_cut: Cut,
    /// 1-in-n chance that a read / writable poll reports Pending once and re-wakes itself
    pub spurious_pending: u64,
    /// 1-in-n chance that try_write reports WouldBlock although there is room
    pub spurious_wouldblock: u64,
    /// fail the read that would hand out the byte with this offset
    pub read_err_at: Option<(u64, ErrorKind)>,
    /// fail the write that would accept the byte with this offset
    pub write_err_at: Option<(u64, ErrorKind)>,
    pub flush_err: Option<ErrorKind>,
    pub shutdown_err: Option<ErrorKind>,
}

impl Default for EpFaults {
    fn default() -> Self {
        Self {
            read_cut: Cut::All,
            write_cut: Cut::All,
            spurious_pending: 0,
            spurious_wouldblock: 0,
            read_err_at: None,
            write_err_at: None,
            flush_err: None,
            shutdown_err: None,
        }
    }
}

#[derive(Clone, Debug)]
pub struct HostPlan {
    pub outcome: ConnectOutcome,
    pub delay: Duration,
    /// capacity of the endpoint->host buffer (socket send buffer + host receive buffer)
    pub to_host_cap: usize,
    /// capacity of the host->endpoint buffer
    pub from_host_cap: usize,
    pub faults: EpFaults,
}

impl Default for HostPlan {
    fn default() -> Self {
        Self {
            outcome: ConnectOutcome::Ok,
            delay: Duration::from_micros(150),
            to_host_cap: 64 * 1024,
            from_host_cap: 64 * 1024,
            faults: EpFaults::default(),
        }
    }
}

#[derive(Clone, Debug)]
pub enum DnsOutcome {
    Answer(Vec<SocketAddr>),
    Error,
    Never,
}

#[derive(Clone, Debug)]
pub struct DnsPlan {
    /// successive queries get successive outcomes; the last one repeats
    pub outcomes: Vec<DnsOutcome>,
    pub delay: Duration,
}

// ---------------------------------------------------------------------------------------
// TCP
// ---------------------------------------------------------------------------------------

#[derive(Default)]
struct Pipe {
    buf: VecDeque<u8>,
    cap: usize,
    fin: bool,
    /// the reader sees this error (after a reset the buffered data is discarded)
    rst: bool,
    /// the reader went away: writes fail
    reader_gone: bool,
    rd_waker: Option<Waker>,
    wr_waker: Option<Waker>,
    written: u64,
    read: u64,
    hash_written: u64,
}

impl Pipe {
    fn new(cap: usize) -> Self {
        Self {
            cap,
            hash_written: 0xcbf2_9ce4_8422_2325,
            ..Default::default()
        }
    }
    fn wake_reader(&mut self) {
        if let Some(w) = self.rd_waker.take() {
            w.wake();
        }
    }
    fn wake_writer(&mut self) {
        if let Some(w) = self.wr_waker.take() {
            w.wake();
        }
    }
    fn room(&self) -> usize {
        self.cap.saturating_sub(self.buf.len())
    }
}

pub struct ConnState {
    pub id: u32,
    /// endpoint -> peer
    out: Pipe,
    /// peer -> endpoint
    inp: Pipe,
    faults: EpFaults,
    rng: Rng,
    local: SocketAddr,
    peer: SocketAddr,
    ep_read_closed: bool,
    ep_write_closed: bool,
    ep_shutdown_done: bool,
    /// outbound (endpoint connected) or inbound (endpoint accepted / door)
    pub outbound: bool,
    pending_flag: bool,
    /// bitmask of injected faults that actually fired (1 read, 2 write, 4 flush, 8 shutdown)
    pub fired: u32,
    /// byte-level events are kept out of the trace (TLS: ciphertext and its exact length
    /// depend on entropy the simulation does not own)
    pub quiet: bool,
    /// virtual time at which the endpoint had closed both directions
    closed_at_us: Option<u64>,
}

#[derive(Clone)]
pub struct EpConn(Arc<Mutex<ConnState>>);

/// The harness-side end of a simulated connection
#[derive(Clone)]
pub struct PeerConn(Arc<Mutex<ConnState>>);

fn cut(c: &Cut, rng: &mut Rng, n: usize) -> usize {
    match c {
        Cut::All => n,
        Cut::Fixed(k) => n.min((*k).max(1)),
        Cut::Random(lo, hi) => n.min(rng.range((*lo).max(1) as u64, (*hi).max(1) as u64) as usize),
    }
}

fn errno_error(code: i32) -> io::Error {
    io::Error::from_raw_os_error(code)
}

fn kind_error(kind: ErrorKind) -> io::Error {
    match kind {
        ErrorKind::ConnectionReset => errno_error(libc::ECONNRESET),
        ErrorKind::BrokenPipe => errno_error(libc::EPIPE),
        ErrorKind::TimedOut => errno_error(libc::ETIMEDOUT),
        ErrorKind::ConnectionAborted => errno_error(libc::ECONNABORTED),
        k => io::Error::new(k, "simulated I/O error"),
    }
}

impl EpConn {
    fn spurious(&self, st: &mut ConnState, cx: &mut Context<'_>) -> bool {
        if st.faults.spurious_pending > 0 {
            if st.pending_flag {
                st.pending_flag = false;
                return false;
            }
            if st.rng.chance(1, st.faults.spurious_pending) {
                st.pending_flag = true;
                count("spurious_pending");
                cx.waker().wake_by_ref();
                return true;
            }
        }
        false
    }

    fn do_write(&self, st: &mut ConnState, data: &[u8]) -> io::Result<usize> {
        if st.ep_write_closed || st.ep_shutdown_done {
            return Err(kind_error(ErrorKind::BrokenPipe));
        }
        if st.out.rst {
            trace(Ev::TcpFault, st.id, 1, 0);
            return Err(kind_error(ErrorKind::ConnectionReset));
        }
        if st.out.reader_gone {
            trace(Ev::TcpFault, st.id, 2, 0);
            return Err(kind_error(ErrorKind::BrokenPipe));
        }
        if data.is_empty() {
            return Ok(0);
        }
        let room = st.out.room();
        if room == 0 {
            return Err(ErrorKind::WouldBlock.into());
        }
        let mut n = cut(&st.faults.write_cut, &mut st.rng, data.len().min(room));
        if let Some((at, kind)) = st.faults.write_err_at {
            if st.out.written + n as u64 > at {
                let before = (at - st.out.written.min(at)) as usize;
                if before == 0 {
                    st.faults.write_err_at = None;
                    count("tcp_write_error");
                    st.fired |= 2;
                    trace(Ev::TcpFault, st.id, 3, at);
                    // a failed socket stays failed
                    st.out.rst = true;
                    st.inp.rst = true;
                    st.inp.wake_reader();
                    return Err(kind_error(kind));
                }
                n = before;
            }
        }
        st.out.buf.extend(&data[..n]);
        st.out.written += n as u64;
        st.out.hash_written = fnv64_from(st.out.hash_written, &data[..n]);
        if !st.quiet {
            trace(Ev::TcpWrite, st.id, n as u64, st.out.hash_written);
        }
        st.out.wake_reader();
        Ok(n)
    }
}

impl os::TcpConn for EpConn {
    fn poll_read(&self, cx: &mut Context<'_>, buf: &mut ReadBuf<'_>) -> Poll<io::Result<()>> {
        let mut g = self.0.lock().unwrap();
        let st = &mut *g;
        if st.ep_read_closed {
            return Poll::Ready(Err(kind_error(ErrorKind::NotConnected)));
        }
        if st.inp.rst {
            trace(Ev::TcpFault, st.id, 4, 0);
            return Poll::Ready(Err(kind_error(ErrorKind::ConnectionReset)));
        }
        if self.spurious(st, cx) {
            return Poll::Pending;
        }
        if st.inp.buf.is_empty() {
            if st.inp.fin {
                if !st.quiet {
            trace(Ev::TcpRead, st.id, 0, 0);
        }
                return Poll::Ready(Ok(()));
            }
            st.inp.rd_waker = Some(cx.waker().clone());
            return Poll::Pending;
        }
        if buf.remaining() == 0 {
            return Poll::Ready(Ok(()));
        }
        let mut n = cut(
            &st.faults.read_cut,
            &mut st.rng,
            st.inp.buf.len().min(buf.remaining()),
        );
        if let Some((at, kind)) = st.faults.read_err_at {
            if st.inp.read + n as u64 > at {
                let before = (at - st.inp.read.min(at)) as usize;
                if before == 0 {
                    st.faults.read_err_at = None;
                    count("tcp_read_error");
                    st.fired |= 1;
                    trace(Ev::TcpFault, st.id, 5, at);
                    st.inp.rst = true;
                    st.out.rst = true;
                    st.out.wake_reader();
                    return Poll::Ready(Err(kind_error(kind)));
                }
                n = before;
            }
        }
        let (a, b) = st.inp.buf.as_slices();
        let k = n.min(a.len());
        buf.put_slice(&a[..k]);
        if k < n {
            buf.put_slice(&b[..n - k]);
        }
        st.inp.buf.drain(..n);
        st.inp.read += n as u64;
        if !st.quiet {
            trace(Ev::TcpRead, st.id, n as u64, st.inp.read);
        }
        st.inp.wake_writer();
        Poll::Ready(Ok(()))
    }

    fn poll_write(&self, cx: &mut Context<'_>, data: &[u8]) -> Poll<io::Result<usize>> {
        let mut g = self.0.lock().unwrap();
        let st = &mut *g;
        match self.do_write(st, data) {
            Err(e) if e.kind() == ErrorKind::WouldBlock => {
                st.out.wr_waker = Some(cx.waker().clone());
                Poll::Pending
            }
            x => Poll::Ready(x),
        }
    }

    fn try_write(&self, data: &[u8]) -> io::Result<usize> {
        let mut g = self.0.lock().unwrap();
        let st = &mut *g;
        if st.faults.spurious_wouldblock > 0
            && !st.pending_flag
            && st.rng.chance(1, st.faults.spurious_wouldblock)
        {
            count("spurious_wouldblock");
            if !st.quiet {
            trace(Ev::TcpWouldBlock, st.id, 1, 0);
        }
            return Err(ErrorKind::WouldBlock.into());
        }
        let r = self.do_write(st, data);
        if let Err(e) = &r {
            if e.kind() == ErrorKind::WouldBlock {
                count("tcp_buffer_full");
                if !st.quiet {
            trace(Ev::TcpWouldBlock, st.id, 0, 0);
        }
            }
        }
        r
    }

    fn poll_writable(&self, cx: &mut Context<'_>) -> Poll<io::Result<()>> {
        let mut g = self.0.lock().unwrap();
        let st = &mut *g;
        if st.out.rst || st.out.reader_gone || st.ep_write_closed {
            // error conditions make a socket writable; the write reports them
            return Poll::Ready(Ok(()));
        }
        if self.spurious(st, cx) {
            return Poll::Pending;
        }
        if st.out.room() == 0 {
            st.out.wr_waker = Some(cx.waker().clone());
            return Poll::Pending;
        }
        Poll::Ready(Ok(()))
    }

    fn poll_flush(&self, _cx: &mut Context<'_>) -> Poll<io::Result<()>> {
        let mut g = self.0.lock().unwrap();
        let st = &mut *g;
        if !st.quiet {
            trace(Ev::TcpFlush, st.id, 0, 0);
        }
        if let Some(k) = st.faults.flush_err.take() {
            count("tcp_flush_error");
            st.fired |= 4;
            trace(Ev::TcpFault, st.id, 6, 0);
            return Poll::Ready(Err(kind_error(k)));
        }
        Poll::Ready(Ok(()))
    }

    fn poll_shutdown(&self, _cx: &mut Context<'_>) -> Poll<io::Result<()>> {
        let mut g = self.0.lock().unwrap();
        let st = &mut *g;
        if let Some(k) = st.faults.shutdown_err.take() {
            count("tcp_shutdown_error");
            st.fired |= 8;
            trace(Ev::TcpFault, st.id, 7, 0);
            return Poll::Ready(Err(kind_error(k)));
        }
        if st.out.rst {
            return Poll::Ready(Err(kind_error(ErrorKind::NotConnected)));
        }
        if !st.ep_shutdown_done {
            st.ep_shutdown_done = true;
            st.out.fin = true;
            trace(Ev::TcpShutdown, st.id, if st.quiet { 0 } else { st.out.written }, 0);
            st.out.wake_reader();
        }
        Poll::Ready(Ok(()))
    }

    fn set_nodelay(&self, _v: bool) -> io::Result<()> {
        Ok(())
    }

    fn set_keepalive(&self, _v: bool) -> io::Result<()> {
        Ok(())
    }

    fn local_addr(&self) -> io::Result<SocketAddr> {
        Ok(self.0.lock().unwrap().local)
    }

    fn peer_addr(&self) -> io::Result<SocketAddr> {
        Ok(self.0.lock().unwrap().peer)
    }

    fn close_read(&self) {
        let mut g = self.0.lock().unwrap();
        let st = &mut *g;
        if st.ep_read_closed {
            return;
        }
        st.ep_read_closed = true;
        trace(Ev::TcpCloseRead, st.id, if st.quiet { 0 } else { st.inp.read }, 0);
        // data the endpoint never read: the peer would get a reset on its next write
        st.inp.reader_gone = true;
        st.inp.wake_writer();
        if st.ep_write_closed {
            st.closed_at_us = Some(now_us());
            census_tcp_closed(st.outbound);
        }
    }

    fn close_write(&self) {
        let mut g = self.0.lock().unwrap();
        let st = &mut *g;
        if st.ep_write_closed {
            return;
        }
        st.ep_write_closed = true;
        trace(Ev::TcpCloseWrite, st.id, if st.quiet { 0 } else { st.out.written }, 0);
        // dropping the write half of a split stream shuts the write direction down
        st.out.fin = true;
        st.out.wake_reader();
        if st.ep_read_closed {
            st.closed_at_us = Some(now_us());
            census_tcp_closed(st.outbound);
        }
    }
}

#[derive(Debug, PartialEq, Eq, Clone)]
pub enum PeerRead {
    Data(Vec<u8>),
    Eof,
    Reset,
}

impl PeerConn {
    pub fn id(&self) -> u32 {
        self.0.lock().unwrap().id
    }

    /// Read up to `max` bytes of what the endpoint wrote
    pub async fn read(&self, max: usize) -> PeerRead {
        std::future::poll_fn(|cx| {
            let mut g = self.0.lock().unwrap();
            let st = &mut *g;
            if st.out.buf.is_empty() {
                if st.out.rst {
                    return Poll::Ready(PeerRead::Reset);
                }
                if st.out.fin {
                    return Poll::Ready(PeerRead::Eof);
                }
                st.out.rd_waker = Some(cx.waker().clone());
                return Poll::Pending;
            }
            let n = st.out.buf.len().min(max.max(1));
            let v: Vec<u8> = st.out.buf.drain(..n).collect();
            st.out.read += n as u64;
            if !st.quiet {
            trace(Ev::PeerRead, st.id, n as u64, st.out.read);
        }
            st.out.wake_writer();
            Poll::Ready(PeerRead::Data(v))
        })
        .await
    }

    /// Bytes the endpoint has written that are still unread
    pub fn readable_now(&self) -> usize {
        self.0.lock().unwrap().out.buf.len()
    }

    /// Write all of `data` towards the endpoint, waiting for room. `Err` if the endpoint has
    /// closed its read side (the kernel would answer RST).
    pub async fn write_all(&self, data: &[u8]) -> Result<(), ()> {
        let mut off = 0;
        while off < data.len() {
            let r = std::future::poll_fn(|cx| {
                let mut g = self.0.lock().unwrap();
                let st = &mut *g;
                if st.inp.reader_gone || st.inp.rst {
                    return Poll::Ready(Err(()));
                }
                let room = st.inp.room();
                if room == 0 {
                    st.inp.wr_waker = Some(cx.waker().clone());
                    return Poll::Pending;
                }
                let n = room.min(data.len() - off);
                st.inp.buf.extend(&data[off..off + n]);
                st.inp.written += n as u64;
                st.inp.hash_written = fnv64_from(st.inp.hash_written, &data[off..off + n]);
                if !st.quiet {
            trace(Ev::PeerWrite, st.id, n as u64, st.inp.hash_written);
        }
                st.inp.wake_reader();
                Poll::Ready(Ok(n))
            })
            .await;
            match r {
                Ok(n) => off += n,
                Err(()) => return Err(()),
            }
        }
        Ok(())
    }

    /// Half-close: FIN towards the endpoint
    pub fn shutdown_write(&self) {
        let mut g = self.0.lock().unwrap();
        let st = &mut *g;
        if !st.inp.fin {
            st.inp.fin = true;
            trace(Ev::PeerFin, st.id, if st.quiet { 0 } else { st.inp.written }, 0);
            st.inp.wake_reader();
        }
    }

    /// Abortive close: RST towards the endpoint
    pub fn reset(&self) {
        let mut g = self.0.lock().unwrap();
        let st = &mut *g;
        st.inp.rst = true;
        st.inp.buf.clear();
        st.out.rst = true;
        st.out.reader_gone = true;
        trace(Ev::PeerRst, st.id, 0, 0);
        count("peer_reset");
        st.inp.wake_reader();
        st.out.wake_writer();
    }

    /// The peer stops reading for good (its receive side is closed)
    pub fn stop_reading(&self) {
        let mut g = self.0.lock().unwrap();
        let st = &mut *g;
        st.out.reader_gone = true;
        st.out.wake_writer();
    }

    pub fn endpoint_closed_both(&self) -> bool {
        let g = self.0.lock().unwrap();
        g.ep_read_closed && g.ep_write_closed
    }

    /// Bytes this peer has written towards the endpoint
    pub fn sent_by_peer(&self) -> u64 {
        self.0.lock().unwrap().inp.written
    }

    /// When the endpoint had dropped both halves of its handle (its socket is released)
    pub fn endpoint_closed_at(&self) -> Option<u64> {
        self.0.lock().unwrap().closed_at_us
    }

    pub fn endpoint_sent_fin(&self) -> bool {
        self.0.lock().unwrap().out.fin
    }

    pub fn endpoint_closed_read(&self) -> bool {
        self.0.lock().unwrap().ep_read_closed
    }

    /// Total bytes the endpoint has written / has read on this connection
    pub fn totals(&self) -> (u64, u64) {
        let g = self.0.lock().unwrap();
        (g.out.written, g.inp.read)
    }

    /// Bytes written towards the endpoint that it has not read yet
    pub fn unread_by_endpoint(&self) -> usize {
        self.0.lock().unwrap().inp.buf.len()
    }

    pub fn faults_fired(&self) -> u32 {
        self.0.lock().unwrap().fired
    }

    pub fn set_quiet(&self, q: bool) {
        self.0.lock().unwrap().quiet = q;
    }

    pub fn set_faults(&self, f: EpFaults) {
        self.0.lock().unwrap().faults = f;
    }
}

/// `AsyncRead + AsyncWrite` over the harness-side end, for protocol stacks used as actors
/// (h2 client, rustls client)
pub struct PeerIo {
    pub conn: PeerConn,
    /// max bytes per write towards the endpoint (segment size); None = unlimited
    pub seg: Cut,
    pub rng: Rng,
    pub pace: Option<Pace>,
}

/// Timing of a peer's writes on the virtual clock: a gap after every segment and one stall
/// before the byte with a given offset leaves
pub struct Pace {
    pub gap_us: u64,
    pub stall_at: Option<u64>,
    /// u64::MAX: the peer never continues
    pub stall_us: u64,
    sleep: Option<std::pin::Pin<Box<tokio::time::Sleep>>>,
    stalled: bool,
}

impl Pace {
    pub fn new(gap_us: u64, stall_at: Option<u64>, stall_us: u64) -> Self {
        Self { gap_us, stall_at, stall_us, sleep: None, stalled: false }
    }
}

impl tokio::io::AsyncRead for PeerIo {
    fn poll_read(
        self: std::pin::Pin<&mut Self>,
        cx: &mut Context<'_>,
        buf: &mut ReadBuf<'_>,
    ) -> Poll<io::Result<()>> {
        let mut g = self.conn.0.lock().unwrap();
        let st = &mut *g;
        if st.out.buf.is_empty() {
            if st.out.rst {
                return Poll::Ready(Err(kind_error(ErrorKind::ConnectionReset)));
            }
            if st.out.fin {
                return Poll::Ready(Ok(()));
            }
            st.out.rd_waker = Some(cx.waker().clone());
            return Poll::Pending;
        }
        let n = st.out.buf.len().min(buf.remaining());
        let (a, b) = st.out.buf.as_slices();
        let k = n.min(a.len());
        buf.put_slice(&a[..k]);
        if k < n {
            buf.put_slice(&b[..n - k]);
        }
        st.out.buf.drain(..n);
        st.out.read += n as u64;
        if !st.quiet {
            trace(Ev::PeerRead, st.id, n as u64, st.out.read);
        }
        st.out.wake_writer();
        Poll::Ready(Ok(()))
    }
}

impl tokio::io::AsyncWrite for PeerIo {
    fn poll_write(
        mut self: std::pin::Pin<&mut Self>,
        cx: &mut Context<'_>,
        data: &[u8],
    ) -> Poll<io::Result<usize>> {
        let this = &mut *self;
        let mut limit = usize::MAX;
        if let Some(p) = &mut this.pace {
            if let Some(s) = &mut p.sleep {
                if std::future::Future::poll(s.as_mut(), cx).is_pending() {
                    return Poll::Pending;
                }
                p.sleep = None;
            }
            let written = this.conn.0.lock().unwrap().inp.written;
            if let Some(at) = p.stall_at {
                if written < at {
                    limit = (at - written) as usize;
                } else if written == at && !p.stalled {
                    p.stalled = true;
                    let d = if p.stall_us == u64::MAX { std::time::Duration::from_secs(400 * 86_400) } else { std::time::Duration::from_micros(p.stall_us) };
                    trace(Ev::Note, 910, at, p.stall_us.min(1 << 40));
                    let t = now_us();
                    with(|w| w.stall_noted_at = Some(t));
                    let mut s = Box::pin(tokio::time::sleep(d));
                    if std::future::Future::poll(s.as_mut(), cx).is_pending() {
                        p.sleep = Some(s);
                        return Poll::Pending;
                    }
                }
            }
        }
        let mut g = this.conn.0.lock().unwrap();
        let st = &mut *g;
        if st.inp.reader_gone || st.inp.rst {
            return Poll::Ready(Err(kind_error(ErrorKind::ConnectionReset)));
        }
        if st.inp.fin {
            return Poll::Ready(Err(kind_error(ErrorKind::BrokenPipe)));
        }
        let room = st.inp.room();
        if room == 0 {
            st.inp.wr_waker = Some(cx.waker().clone());
            return Poll::Pending;
        }
        let n = cut(&this.seg, &mut this.rng, room.min(data.len()).min(limit));
        if let Some(p) = &mut this.pace {
            if p.gap_us > 0 {
                p.sleep = Some(Box::pin(tokio::time::sleep(std::time::Duration::from_micros(p.gap_us))));
            }
        }
        st.inp.buf.extend(&data[..n]);
        st.inp.written += n as u64;
        st.inp.hash_written = fnv64_from(st.inp.hash_written, &data[..n]);
        if !st.quiet {
            trace(Ev::PeerWrite, st.id, n as u64, st.inp.hash_written);
        }
        st.inp.wake_reader();
        Poll::Ready(Ok(n))
    }

    fn poll_flush(self: std::pin::Pin<&mut Self>, _: &mut Context<'_>) -> Poll<io::Result<()>> {
        Poll::Ready(Ok(()))
    }

    fn poll_shutdown(self: std::pin::Pin<&mut Self>, _: &mut Context<'_>) -> Poll<io::Result<()>> {
        self.conn.shutdown_write();
        Poll::Ready(Ok(()))
    }
}

// ---------------------------------------------------------------------------------------
// listener
// ---------------------------------------------------------------------------------------

struct ListenerState {
    id: u32,
    addr: SocketAddr,
    queue: VecDeque<(EpConn, SocketAddr)>,
    waker: Option<Waker>,
    closed: bool,
}

#[derive(Clone)]
struct Acceptor(Arc<Mutex<ListenerState>>);

impl os::TcpAcceptor for Acceptor {
    fn poll_accept(
        &self,
        cx: &mut Context<'_>,
    ) -> Poll<io::Result<(Arc<dyn os::TcpConn>, SocketAddr)>> {
        let mut st = self.0.lock().unwrap();
        match st.queue.pop_front() {
            Some((c, a)) => {
                trace(Ev::Accept, st.id, c.0.lock().unwrap().id as u64, 0);
                Poll::Ready(Ok((Arc::new(c), a)))
            }
            None => {
                st.waker = Some(cx.waker().clone());
                Poll::Pending
            }
        }
    }

    fn local_addr(&self) -> io::Result<SocketAddr> {
        Ok(self.0.lock().unwrap().addr)
    }

    fn close(&self) {
        let mut st = self.0.lock().unwrap();
        if !st.closed {
            st.closed = true;
            trace(Ev::ListenClose, st.id, 0, 0);
            with(|w| w.census.listeners -= 1);
            // connections still in the accept queue are reset, as the kernel does
            let queued: Vec<(EpConn, SocketAddr)> = st.queue.drain(..).collect();
            drop(st);
            for (c, _) in queued {
                {
                    let mut g = c.0.lock().unwrap();
                    g.out.rst = true;
                    g.out.wake_reader();
                }
                os::TcpConn::close_read(&c);
                os::TcpConn::close_write(&c);
            }
        }
    }
}

// ---------------------------------------------------------------------------------------
// UDP
// ---------------------------------------------------------------------------------------

#[derive(Clone, Debug)]
pub struct UdpSent {
    pub sock: u32,
    pub local: SocketAddr,
    pub dst: SocketAddr,
    pub payload: Vec<u8>,
    pub t_us: u64,
}

struct UdpState {
    id: u32,
    local: SocketAddr,
    connected: Option<SocketAddr>,
    queue: VecDeque<(SocketAddr, Vec<u8>)>,
    /// an asynchronous error (ICMP unreachable) reported by the next operation
    pending_error: Option<i32>,
    rd_waker: Option<Waker>,
    closed: bool,
}

#[derive(Clone)]
pub struct UdpHandle(Arc<Mutex<UdpState>>);

impl os::UdpSock for UdpHandle {
    fn connect(&self, peer: SocketAddr) -> io::Result<()> {
        let mut st = self.0.lock().unwrap();
        trace(Ev::UdpConnect, st.id, addr_hash(&peer), 0);
        if let Some(code) = with(|w| w.udp_connect_errors.get(&peer).copied()) {
            count("udp_connect_error");
            trace(Ev::UdpFault, st.id, 1, code as u64);
            return Err(errno_error(code));
        }
        st.connected = Some(peer);
        Ok(())
    }

    fn local_addr(&self) -> io::Result<SocketAddr> {
        Ok(self.0.lock().unwrap().local)
    }

    fn poll_send(&self, _cx: &mut Context<'_>, data: &[u8]) -> Poll<io::Result<usize>> {
        let mut st = self.0.lock().unwrap();
        if let Some(code) = st.pending_error.take() {
            count("udp_send_error");
            trace(Ev::UdpFault, st.id, 2, code as u64);
            return Poll::Ready(Err(errno_error(code)));
        }
        let dst = match st.connected {
            Some(d) => d,
            None => return Poll::Ready(Err(errno_error(libc::EDESTADDRREQ))),
        };
        if let Some(code) = with(|w| w.udp_send_errors.remove(&dst)) {
            count("udp_send_error");
            trace(Ev::UdpFault, st.id, 3, code as u64);
            return Poll::Ready(Err(errno_error(code)));
        }
        trace(Ev::UdpSend, st.id, data.len() as u64, fnv64(data));
        let sent = UdpSent {
            sock: st.id,
            local: st.local,
            dst,
            payload: data.to_vec(),
            t_us: now_us(),
        };
        with(|w| {
            w.udp_sent.push(sent);
            if let Some(wk) = w.udp_sent_waker.take() {
                wk.wake();
            }
        });
        Poll::Ready(Ok(data.len()))
    }

    fn poll_recv(&self, cx: &mut Context<'_>, buf: &mut ReadBuf<'_>) -> Poll<io::Result<()>> {
        let mut st = self.0.lock().unwrap();
        if let Some(code) = st.pending_error.take() {
            count("udp_recv_error");
            trace(Ev::UdpFault, st.id, 4, code as u64);
            return Poll::Ready(Err(errno_error(code)));
        }
        match st.queue.pop_front() {
            Some((_, p)) => {
                let n = p.len().min(buf.remaining());
                buf.put_slice(&p[..n]);
                trace(Ev::UdpRecv, st.id, n as u64, fnv64(&p));
                Poll::Ready(Ok(()))
            }
            None => {
                st.rd_waker = Some(cx.waker().clone());
                Poll::Pending
            }
        }
    }

    fn poll_readable(&self, cx: &mut Context<'_>) -> Poll<io::Result<()>> {
        let mut st = self.0.lock().unwrap();
        if st.pending_error.is_some() || !st.queue.is_empty() {
            return Poll::Ready(Ok(()));
        }
        st.rd_waker = Some(cx.waker().clone());
        Poll::Pending
    }

    fn try_recv(&self, buf: &mut Vec<u8>) -> io::Result<usize> {
        let mut st = self.0.lock().unwrap();
        if let Some(code) = st.pending_error.take() {
            count("udp_recv_error");
            trace(Ev::UdpFault, st.id, 5, code as u64);
            return Err(errno_error(code));
        }
        match st.queue.pop_front() {
            Some((_, p)) => {
                let room = buf.capacity() - buf.len();
                let n = p.len().min(room);
                buf.extend_from_slice(&p[..n]);
                trace(Ev::UdpRecv, st.id, n as u64, fnv64(&p));
                Ok(n)
            }
            None => Err(ErrorKind::WouldBlock.into()),
        }
    }

    fn close(&self) {
        let mut st = self.0.lock().unwrap();
        if !st.closed {
            st.closed = true;
            trace(Ev::UdpClose, st.id, 0, 0);
            with(|w| {
                w.census.udp_open -= 1;
                w.udp_socks.remove(&st.id);
            });
        }
    }
}

// ---------------------------------------------------------------------------------------
// raw ICMP
// ---------------------------------------------------------------------------------------

#[derive(Clone, Debug)]
pub struct IcmpSent {
    pub v4: bool,
    pub dst: IpAddr,
    pub ttl: u8,
    pub packet: Vec<u8>,
    pub t_us: u64,
}

struct IcmpState {
    id: u32,
    v4: bool,
    queue: VecDeque<(IpAddr, Vec<u8>)>,
    rd_waker: Option<Waker>,
    closed: bool,
}

#[derive(Clone)]
struct IcmpHandle(Arc<Mutex<IcmpState>>);

impl os::RawIcmp for IcmpHandle {
    fn poll_send_to(
        &self,
        _cx: &mut Context<'_>,
        dst: IpAddr,
        ttl: u8,
        packet: &[u8],
    ) -> Poll<io::Result<()>> {
        let st = self.0.lock().unwrap();
        if let Some(code) = with(|w| w.icmp_send_errors.remove(&dst)) {
            count("icmp_send_error");
            return Poll::Ready(Err(errno_error(code)));
        }
        trace(Ev::IcmpSend, st.id, packet.len() as u64, fnv64(packet));
        let s = IcmpSent {
            v4: st.v4,
            dst,
            ttl,
            packet: packet.to_vec(),
            t_us: now_us(),
        };
        with(|w| {
            w.icmp_sent.push(s);
            if let Some(wk) = w.icmp_sent_waker.take() {
                wk.wake();
            }
        });
        Poll::Ready(Ok(()))
    }

    fn poll_recv_from(&self, cx: &mut Context<'_>) -> Poll<io::Result<(IpAddr, Bytes)>> {
        let mut st = self.0.lock().unwrap();
        match st.queue.pop_front() {
            Some((peer, p)) => {
                trace(Ev::IcmpRecv, st.id, p.len() as u64, fnv64(&p));
                Poll::Ready(Ok((peer, Bytes::from(p))))
            }
            None => {
                st.rd_waker = Some(cx.waker().clone());
                Poll::Pending
            }
        }
    }

    fn close(&self) {
        let mut st = self.0.lock().unwrap();
        if !st.closed {
            st.closed = true;
            trace(Ev::IcmpClose, st.id, 0, 0);
            with(|w| w.census.raw_open -= 1);
        }
    }
}

// ---------------------------------------------------------------------------------------
// the world
// ---------------------------------------------------------------------------------------

#[derive(Clone, Debug, Default, PartialEq, Eq)]
pub struct Census {
    pub tcp_out_open: i64,
    pub tcp_in_open: i64,
    pub tcp_pending_connects: i64,
    pub udp_open: i64,
    pub raw_open: i64,
    pub listeners: i64,
}

#[derive(Clone, Debug)]
pub struct ConnectAttempt {
    pub addr: SocketAddr,
    pub t_us: u64,
    pub conn: Option<u32>,
}

#[derive(Clone, Debug)]
pub struct DnsQueryRec {
    pub name: String,
    pub t_us: u64,
}

pub struct Inner {
    pub rng: Rng,
    start: tokio::time::Instant,
    pub trace: Vec<Event>,
    pub trace_enabled: bool,
    /// recording stopped because the run produced too many events
    pub trace_overflow: bool,
    pub counters: BTreeMap<&'static str, u64>,
    next_id: u32,
    next_port: u16,
    pub census: Census,
    /// when a paced peer began its planned stall
    pub stall_noted_at: Option<u64>,
    pub hosts: HashMap<SocketAddr, HostPlan>,
    pub default_host: Option<HostPlan>,
    pub dns: HashMap<String, DnsPlan>,
    dns_counts: HashMap<String, usize>,
    pub connect_attempts: Vec<ConnectAttempt>,
    pub dns_queries: Vec<DnsQueryRec>,
    /// peer-side handles of established outbound connections, in order, for actors to claim
    pub established: VecDeque<(SocketAddr, PeerConn)>,
    established_waker: Option<Waker>,
    listeners: HashMap<SocketAddr, Acceptor>,
    pub udp_sent: Vec<UdpSent>,
    pub udp_sent_waker: Option<Waker>,
    udp_socks: HashMap<u32, UdpHandle>,
    pub udp_binds: Vec<(u32, SocketAddr, u64)>,
    pub udp_connect_errors: HashMap<SocketAddr, i32>,
    pub udp_send_errors: HashMap<SocketAddr, i32>,
    pub udp_bind_error: Option<i32>,
    pub icmp_sent: Vec<IcmpSent>,
    pub icmp_sent_waker: Option<Waker>,
    icmp_socks: Vec<IcmpHandle>,
    pub icmp_send_errors: HashMap<IpAddr, i32>,
    pub icmp_open_error: Option<i32>,
    pub random: Rng,
    pub random_bias_carry: bool,
}

thread_local! {
    static W: RefCell<Option<Inner>> = const { RefCell::new(None) };
}

pub fn with<R>(f: impl FnOnce(&mut Inner) -> R) -> R {
    W.with(|w| f(w.borrow_mut().as_mut().expect("world not installed")))
}

pub fn stall_noted_at() -> Option<u64> {
    with(|w| w.stall_noted_at)
}

pub fn is_installed() -> bool {
    W.with(|w| w.borrow().is_some())
}

pub fn now_us() -> u64 {
    W.with(|w| match w.borrow().as_ref() {
        Some(i) => (tokio::time::Instant::now() - i.start).as_micros() as u64,
        None => 0,
    })
}

pub fn trace(kind: Ev, obj: u32, a: u64, b: u64) {
    crate::sim::PROGRESS.fetch_add(1, std::sync::atomic::Ordering::Relaxed);
    W.with(|w| {
        if let Some(i) = w.borrow_mut().as_mut() {
            if i.trace_enabled {
                let t_us = (tokio::time::Instant::now() - i.start).as_micros() as u64;
                i.trace.push(Event {
                    t_us,
                    kind,
                    obj,
                    a,
                    b,
                });
                // a run that produces millions of events is not going to tell anything new and
                // would take gigabytes: stop recording, the run is reported as inconclusive
                if i.trace.len() >= 6_000_000 {
                    i.trace_enabled = false;
                    i.trace_overflow = true;
                }
                // development aid: dump the tail of a run that will not end
                if i.trace.len() == 400_000 {
                    if let Ok(p) = std::env::var("VERIF_DUMP_STORM") {
                        let mut out = String::new();
                        for e in i.trace.iter().skip(i.trace.len() - 3000) {
                            out.push_str(&format!("{} {:?} {} {} {}\n", e.t_us, e.kind, e.obj, e.a, e.b));
                        }
                        let _ = std::fs::write(p, out);
                    }
                }
            }
        }
    })
}

/// A harness-level marker in the trace (oracle observations, plan steps)
pub fn note(code: u32, a: u64, b: u64) {
    trace(Ev::Note, code, a, b)
}

pub fn count(name: &'static str) {
    W.with(|w| {
        if let Some(i) = w.borrow_mut().as_mut() {
            *i.counters.entry(name).or_insert(0) += 1;
        }
    })
}

pub fn count_n(name: &'static str, n: u64) {
    W.with(|w| {
        if let Some(i) = w.borrow_mut().as_mut() {
            *i.counters.entry(name).or_insert(0) += n;
        }
    })
}

fn census_tcp_closed(outbound: bool) {
    with(|w| {
        if outbound {
            w.census.tcp_out_open -= 1
        } else {
            w.census.tcp_in_open -= 1
        }
    })
}

fn addr_hash(a: &SocketAddr) -> u64 {
    fnv64(a.to_string().as_bytes())
}

/// Same-instant outputs of one synchronous call (e.g. several flows expiring on one timer
/// tick) come out in the iteration order of a randomly keyed hash map inside the endpoint:
/// runs of events of the same kind at the same instant are put in a canonical order.
pub fn canonical(tr: &[Event]) -> Vec<Event> {
    let mut v = tr.to_vec();
    let mut i = 0;
    while i < v.len() {
        let mut j = i + 1;
        while j < v.len() && v[j].t_us == v[i].t_us && v[j].kind == v[i].kind {
            j += 1;
        }
        if j - i > 1 {
            v[i..j].sort_by_key(|e| (e.obj, e.a, e.b));
        }
        i = j;
    }
    v
}

pub fn trace_hash(tr: &[Event]) -> u64 {
    let tr = &canonical(tr);
    let mut h = 0xcbf2_9ce4_8422_2325u64;
    for e in tr {
        h = fnv64_from(h, &e.t_us.to_le_bytes());
        h = fnv64_from(h, &[e.kind as u8]);
        h = fnv64_from(h, &e.obj.to_le_bytes());
        h = fnv64_from(h, &e.a.to_le_bytes());
        h = fnv64_from(h, &e.b.to_le_bytes());
    }
    h
}

struct WorldShell;

pub fn install(seed: u64) {
    let rng = Rng::new(seed);
    let inner = Inner {
        random: rng.fork("entropy"),
        rng: rng.fork("world"),
        start: tokio::time::Instant::now(),
        trace: Vec::new(),
        trace_enabled: true,
        trace_overflow: false,
        counters: BTreeMap::new(),
        next_id: 1,
        next_port: 40000,
        census: Census::default(),
        stall_noted_at: None,
        hosts: HashMap::new(),
        default_host: None,
        dns: HashMap::new(),
        dns_counts: HashMap::new(),
        connect_attempts: Vec::new(),
        dns_queries: Vec::new(),
        established: VecDeque::new(),
        established_waker: None,
        listeners: HashMap::new(),
        udp_sent: Vec::new(),
        udp_sent_waker: None,
        udp_socks: HashMap::new(),
        udp_binds: Vec::new(),
        udp_connect_errors: HashMap::new(),
        udp_send_errors: HashMap::new(),
        udp_bind_error: None,
        icmp_sent: Vec::new(),
        icmp_sent_waker: None,
        icmp_socks: Vec::new(),
        icmp_send_errors: HashMap::new(),
        icmp_open_error: None,
        random_bias_carry: false,
    };
    W.with(|w| *w.borrow_mut() = Some(inner));
    os::install(Some(Rc::new(WorldShell)));
}

pub static KEEP_TRACE: std::sync::atomic::AtomicBool = std::sync::atomic::AtomicBool::new(false);
static KEPT: Mutex<Vec<Event>> = Mutex::new(Vec::new());

pub fn take_kept_trace() -> Vec<Event> {
    std::mem::take(&mut *KEPT.lock().unwrap())
}

pub fn uninstall() -> Option<Inner> {
    os::install(None);
    let inner = W.with(|w| w.borrow_mut().take());
    if KEEP_TRACE.load(std::sync::atomic::Ordering::Relaxed) {
        if let Some(i) = &inner {
            *KEPT.lock().unwrap() = canonical(&i.trace);
        }
    }
    inner
}

impl Inner {
    fn id(&mut self) -> u32 {
        let x = self.next_id;
        self.next_id += 1;
        x
    }

    fn port(&mut self) -> u16 {
        let p = self.next_port;
        self.next_port = if p >= 60000 { 40000 } else { p + 1 };
        p
    }

    fn make_conn(
        &mut self,
        local: SocketAddr,
        peer: SocketAddr,
        to_peer_cap: usize,
        from_peer_cap: usize,
        faults: EpFaults,
        outbound: bool,
    ) -> (EpConn, PeerConn) {
        let id = self.id();
        let rng = self.rng.fork(&format!("conn{}", id));
        let st = Arc::new(Mutex::new(ConnState {
            id,
            out: Pipe::new(to_peer_cap.max(1)),
            inp: Pipe::new(from_peer_cap.max(1)),
            faults,
            rng,
            local,
            peer,
            ep_read_closed: false,
            ep_write_closed: false,
            closed_at_us: None,
            ep_shutdown_done: false,
            outbound,
            pending_flag: false,
            fired: 0,
            quiet: false,
        }));
        if outbound {
            self.census.tcp_out_open += 1;
        } else {
            self.census.tcp_in_open += 1;
        }
        (EpConn(st.clone()), PeerConn(st))
    }
}

/// A client connection handed straight to a session door (no listener involved)
pub fn client_conn(
    client_addr: SocketAddr,
    to_client_cap: usize,
    from_client_cap: usize,
    faults: EpFaults,
) -> (os::TcpStream, PeerConn) {
    let (ep, peer) = with(|w| {
        let local = SocketAddr::from((Ipv4Addr::new(198, 51, 100, 1), 443));
        let (ep, peer) = w.make_conn(
            local,
            client_addr,
            to_client_cap,
            from_client_cap,
            faults,
            false,
        );
        (ep, peer)
    });
    trace(Ev::ClientConnect, peer.id(), 0, 0);
    (os::TcpStream::from_conn(Arc::new(ep)), peer)
}

/// A client connects to a listener the endpoint has bound. `None` if nothing listens there.
pub fn connect_to_listener(
    listen_addr: SocketAddr,
    client_addr: SocketAddr,
    to_client_cap: usize,
    from_client_cap: usize,
    faults: EpFaults,
) -> Option<PeerConn> {
    let r = with(|w| {
        let acc = w.listeners.get(&listen_addr)?.clone();
        if acc.0.lock().unwrap().closed {
            return None;
        }
        let (ep, peer) = w.make_conn(
            listen_addr,
            client_addr,
            to_client_cap,
            from_client_cap,
            faults,
            false,
        );
        Some((acc, ep, peer))
    });
    let (acc, ep, peer) = r?;
    trace(Ev::ClientConnect, peer.id(), 1, 0);
    let mut st = acc.0.lock().unwrap();
    st.queue.push_back((ep, client_addr));
    if let Some(w) = st.waker.take() {
        w.wake();
    }
    Some(peer)
}

pub fn listener_exists(addr: &SocketAddr) -> bool {
    with(|w| {
        w.listeners
            .get(addr)
            .map(|a| !a.0.lock().unwrap().closed)
            .unwrap_or(false)
    })
}

/// Wait for the next outbound connection the endpoint establishes
pub async fn next_established() -> (SocketAddr, PeerConn) {
    std::future::poll_fn(|cx| {
        with(|w| match w.established.pop_front() {
            Some(x) => Poll::Ready(x),
            None => {
                w.established_waker = Some(cx.waker().clone());
                Poll::Pending
            }
        })
    })
    .await
}

/// Wait until the endpoint has sent more than `seen` datagrams
pub async fn udp_sent_after(seen: usize) {
    std::future::poll_fn(|cx| {
        with(|w| {
            if w.udp_sent.len() > seen {
                Poll::Ready(())
            } else {
                w.udp_sent_waker = Some(cx.waker().clone());
                Poll::Pending
            }
        })
    })
    .await
}

pub async fn icmp_sent_after(seen: usize) {
    std::future::poll_fn(|cx| {
        with(|w| {
            if w.icmp_sent.len() > seen {
                Poll::Ready(())
            } else {
                w.icmp_sent_waker = Some(cx.waker().clone());
                Poll::Pending
            }
        })
    })
    .await
}

/// A datagram arrives for socket `sock` from `from`. Returns false if the "kernel" dropped it
/// (socket closed, or connected to another peer).
pub fn udp_deliver(sock: u32, from: SocketAddr, payload: &[u8]) -> bool {
    let h = with(|w| w.udp_socks.get(&sock).cloned());
    let h = match h {
        Some(h) => h,
        None => {
            count("udp_deliver_to_closed");
            return false;
        }
    };
    let mut st = h.0.lock().unwrap();
    if st.closed {
        count("udp_deliver_to_closed");
        return false;
    }
    if let Some(c) = st.connected {
        if c != from {
            count("udp_unsolicited_dropped_by_kernel");
            return false;
        }
    }
    trace(Ev::UdpDeliver, st.id, payload.len() as u64, fnv64(payload));
    st.queue.push_back((from, payload.to_vec()));
    if let Some(w) = st.rd_waker.take() {
        w.wake();
    }
    true
}

/// An asynchronous error (as after an ICMP port unreachable) for socket `sock`
pub fn udp_inject_error(sock: u32, code: i32) -> bool {
    let h = with(|w| w.udp_socks.get(&sock).cloned());
    match h {
        Some(h) => {
            let mut st = h.0.lock().unwrap();
            st.pending_error = Some(code);
            if let Some(w) = st.rd_waker.take() {
                w.wake();
            }
            true
        }
        None => false,
    }
}

pub fn udp_is_open(sock: u32) -> bool {
    with(|w| w.udp_socks.contains_key(&sock))
}

/// A raw packet arrives on the v4 / v6 raw socket. IPv4 packets must include the IP header.
pub fn icmp_deliver(v4: bool, from: IpAddr, packet: &[u8]) -> bool {
    let h = with(|w| {
        w.icmp_socks
            .iter()
            .find(|h| {
                let s = h.0.lock().unwrap();
                s.v4 == v4 && !s.closed
            })
            .cloned()
    });
    match h {
        Some(h) => {
            let mut st = h.0.lock().unwrap();
            trace(Ev::IcmpDeliver, st.id, packet.len() as u64, fnv64(packet));
            st.queue.push_back((from, packet.to_vec()));
            if let Some(w) = st.rd_waker.take() {
                w.wake();
            }
            true
        }
        None => false,
    }
}

/// What `getaddrinfo` makes of a numeric host (inet_aton forms, IPv6 literals)
pub fn numeric_host(host: &str) -> Option<IpAddr> {
    if let Ok(ip) = host.parse::<Ipv6Addr>() {
        return Some(IpAddr::V6(ip));
    }
    let parts: Vec<&str> = host.split('.').collect();
    if parts.is_empty() || parts.len() > 4 || parts.iter().any(|p| p.is_empty()) {
        return None;
    }
    let mut vals = Vec::new();
    for p in &parts {
        let v = if let Some(h) = p.strip_prefix("0x").or_else(|| p.strip_prefix("0X")) {
            u64::from_str_radix(h, 16).ok()?
        } else if p.len() > 1 && p.starts_with('0') {
            u64::from_str_radix(&p[1..], 8).ok()?
        } else {
            if !p.bytes().all(|b| b.is_ascii_digit()) {
                return None;
            }
            p.parse::<u64>().ok()?
        };
        vals.push(v);
    }
    let n = vals.len();
    let mut addr: u64 = 0;
    for (i, v) in vals.iter().enumerate() {
        if i + 1 < n {
            if *v > 255 {
                return None;
            }
            addr |= v << (8 * (3 - i));
        } else {
            let max = match n {
                1 => 0xffff_ffffu64,
                2 => 0xff_ffff,
                3 => 0xffff,
                _ => 0xff,
            };
            if *v > max {
                return None;
            }
            addr |= v;
        }
    }
    Some(IpAddr::V4(Ipv4Addr::from(addr as u32)))
}

impl os::World for WorldShell {
    fn tcp_connect(&self, peer: SocketAddr) -> os::BoxFuture<io::Result<Arc<dyn os::TcpConn>>> {
        let plan = with(|w| {
            w.connect_attempts.push(ConnectAttempt {
                addr: peer,
                t_us: 0,
                conn: None,
            });
            let idx = w.connect_attempts.len() - 1;
            w.census.tcp_pending_connects += 1;
            (
                idx,
                w.hosts
                    .get(&peer)
                    .cloned()
                    .or_else(|| w.default_host.clone()),
            )
        });
        let (idx, plan) = plan;
        let t = now_us();
        with(|w| w.connect_attempts[idx].t_us = t);
        trace(Ev::TcpConnectStart, idx as u32, addr_hash(&peer), 0);

        struct PendingGuard(bool);
        impl Drop for PendingGuard {
            fn drop(&mut self) {
                if !self.0 && is_installed() {
                    with(|w| w.census.tcp_pending_connects -= 1);
                    count("connect_abandoned");
                }
            }
        }

        Box::pin(async move {
            let mut guard = PendingGuard(false);
            let plan = match plan {
                Some(p) => p,
                None => {
                    // nobody there: an unplanned destination behaves like a closed port
                    HostPlan {
                        outcome: ConnectOutcome::Refused,
                        ..HostPlan::default()
                    }
                }
            };
            if matches!(plan.outcome, ConnectOutcome::Never) {
                count("connect_never");
                std::future::pending::<()>().await;
            }
            tokio::time::sleep(plan.delay).await;
            guard.0 = true;
            with(|w| w.census.tcp_pending_connects -= 1);
            let fail = |code: i32, name: &'static str| {
                count(name);
                trace(Ev::TcpConnectFail, idx as u32, code as u64, 0);
                Err(errno_error(code))
            };
            match plan.outcome {
                ConnectOutcome::Ok => {
                    let (ep, pc) = with(|w| {
                        let port = w.port();
                        let local = match peer {
                            SocketAddr::V4(_) => {
                                SocketAddr::from((Ipv4Addr::new(198, 51, 100, 1), port))
                            }
                            SocketAddr::V6(_) => SocketAddr::from((
                                Ipv6Addr::new(0x2a00, 0x1450, 0, 0, 0, 0, 0, 1),
                                port,
                            )),
                        };
                        let (ep, pc) = w.make_conn(
                            local,
                            peer,
                            plan.to_host_cap,
                            plan.from_host_cap,
                            plan.faults.clone(),
                            true,
                        );
                        w.connect_attempts[idx].conn = Some(pc.id());
                        w.established.push_back((peer, pc.clone()));
                        if let Some(wk) = w.established_waker.take() {
                            wk.wake();
                        }
                        (ep, pc)
                    });
                    trace(Ev::TcpConnectDone, idx as u32, pc.id() as u64, 0);
                    Ok(Arc::new(ep) as Arc<dyn os::TcpConn>)
                }
                ConnectOutcome::Refused => fail(libc::ECONNREFUSED, "connect_refused"),
                ConnectOutcome::NetUnreachable => fail(libc::ENETUNREACH, "connect_net_unreachable"),
                ConnectOutcome::HostUnreachable => {
                    fail(libc::EHOSTUNREACH, "connect_host_unreachable")
                }
                ConnectOutcome::TimedOut => fail(libc::ETIMEDOUT, "connect_timed_out"),
                ConnectOutcome::Emfile => fail(libc::EMFILE, "connect_emfile"),
                ConnectOutcome::OtherError => fail(libc::EADDRNOTAVAIL, "connect_other_error"),
                ConnectOutcome::Never => unreachable!(),
            }
        })
    }

    fn tcp_bind(&self, addr: SocketAddr) -> io::Result<Arc<dyn os::TcpAcceptor>> {
        with(|w| {
            if let Some(a) = w.listeners.get(&addr) {
                if !a.0.lock().unwrap().closed {
                    return Err(errno_error(libc::EADDRINUSE));
                }
            }
            let id = w.id();
            let acc = Acceptor(Arc::new(Mutex::new(ListenerState {
                id,
                addr,
                queue: VecDeque::new(),
                waker: None,
                closed: false,
            })));
            w.listeners.insert(addr, acc.clone());
            w.census.listeners += 1;
            Ok((id, acc))
        })
        .map(|(id, acc)| {
            trace(Ev::Listen, id, addr_hash(&addr), 0);
            Arc::new(acc) as Arc<dyn os::TcpAcceptor>
        })
    }

    fn lookup_host(&self, host: String) -> os::BoxFuture<io::Result<Vec<SocketAddr>>> {
        let t = now_us();
        let (plan, nth) = with(|w| {
            w.dns_queries.push(DnsQueryRec {
                name: host.clone(),
                t_us: t,
            });
            let c = w.dns_counts.entry(host.clone()).or_insert(0);
            let nth = *c;
            *c += 1;
            (w.dns.get(&host).cloned(), nth)
        });
        trace(Ev::DnsQuery, nth as u32, fnv64(host.as_bytes()), 0);
        Box::pin(async move {
            let nxdomain = || {
                io::Error::new(
                    ErrorKind::Other,
                    "failed to lookup address information: Name or service not known",
                )
            };
            let plan = match plan {
                Some(p) => p,
                None => {
                    // what getaddrinfo does with a numeric "host:port"
                    let r = host.rsplit_once(':').and_then(|(h, p)| {
                        let port = p.parse::<u16>().ok()?;
                        let h = h.strip_suffix('.').unwrap_or(h);
                        let h = h
                            .strip_prefix('[')
                            .and_then(|x| x.strip_suffix(']'))
                            .unwrap_or(h);
                        numeric_host(h).map(|ip| SocketAddr::new(ip, port))
                    });
                    tokio::time::sleep(Duration::from_micros(50)).await;
                    return match r {
                        Some(a) => {
                            count("dns_numeric_host");
                            trace(Ev::DnsAnswer, 1, addr_hash(&a), 0);
                            Ok(vec![a])
                        }
                        None => {
                            count("dns_unplanned_name");
                            trace(Ev::DnsAnswer, 0, 0, 0);
                            Err(nxdomain())
                        }
                    };
                }
            };
            let outcome = plan.outcomes[nth.min(plan.outcomes.len() - 1)].clone();
            if nth > 0 && plan.outcomes.len() > 1 {
                count("dns_second_query_differs");
            }
            if matches!(outcome, DnsOutcome::Never) {
                count("dns_never");
                std::future::pending::<()>().await;
            }
            tokio::time::sleep(plan.delay).await;
            match outcome {
                DnsOutcome::Answer(v) => {
                    trace(
                        Ev::DnsAnswer,
                        v.len() as u32,
                        v.first().map(addr_hash).unwrap_or(0),
                        0,
                    );
                    if v.is_empty() {
                        count("dns_empty");
                    }
                    Ok(v)
                }
                DnsOutcome::Error => {
                    count("dns_error");
                    trace(Ev::DnsAnswer, 0, 0, 1);
                    Err(nxdomain())
                }
                DnsOutcome::Never => unreachable!(),
            }
        })
    }

    fn udp_bind(&self, addr: SocketAddr) -> io::Result<Arc<dyn os::UdpSock>> {
        let (id, h) = with(|w| {
            if let Some(code) = w.udp_bind_error.take() {
                *w.counters.entry("udp_bind_error").or_insert(0) += 1;
                return Err(errno_error(code));
            }
            let id = w.id();
            let port = if addr.port() == 0 { w.port() } else { addr.port() };
            let local = SocketAddr::new(addr.ip(), port);
            let h = UdpHandle(Arc::new(Mutex::new(UdpState {
                id,
                local,
                connected: None,
                queue: VecDeque::new(),
                pending_error: None,
                rd_waker: None,
                closed: false,
            })));
            w.udp_socks.insert(id, h.clone());
            w.census.udp_open += 1;
            let t = (tokio::time::Instant::now() - w.start).as_micros() as u64;
            w.udp_binds.push((id, local, t));
            Ok((id, h))
        })?;
        trace(Ev::UdpBind, id, 0, 0);
        Ok(Arc::new(h))
    }

    fn raw_icmp(&self, is_v4: bool, _if_name: &str) -> io::Result<Arc<dyn os::RawIcmp>> {
        let (id, h) = with(|w| {
            if let Some(code) = w.icmp_open_error.take() {
                return Err(errno_error(code));
            }
            let id = w.id();
            let h = IcmpHandle(Arc::new(Mutex::new(IcmpState {
                id,
                v4: is_v4,
                queue: VecDeque::new(),
                rd_waker: None,
                closed: false,
            })));
            w.icmp_socks.push(h.clone());
            w.census.raw_open += 1;
            Ok((id, h))
        })?;
        trace(Ev::IcmpOpen, id, is_v4 as u64, 0);
        Ok(Arc::new(h))
    }

    fn fill_random(&self, dest: &mut [u8]) {
        with(|w| {
            if w.random_bias_carry {
                // mostly 0xff so that the one's complement sum carries more than once
                for b in dest.iter_mut() {
                    *b = if w.random.chance(15, 16) {
                        0xff
                    } else {
                        w.random.below(256) as u8
                    };
                }
            } else {
                let v = w.random.bytes(dest.len());
                dest.copy_from_slice(&v);
            }
        })
    }
}
