//! Reference models written from the property statements, PROTOCOL.md and the IANA
//! special-purpose registries — independent of the code under test.

use std::net::{IpAddr, Ipv4Addr, Ipv6Addr};

#[derive(Clone, Copy, Debug, PartialEq, Eq)]
pub enum Egress {
    /// the statement says the endpoint must never connect there (policy on)
    MustRefuse,
    /// the statement says the policy must never refuse it
    MustAllow,
    /// statement and registries leave it open
    Either,
}

fn in4(ip: Ipv4Addr, net: [u8; 4], len: u32) -> bool {
    let a = u32::from(ip);
    let n = u32::from(Ipv4Addr::from(net));
    let mask = if len == 0 { 0 } else { u32::MAX << (32 - len) };
    a & mask == n & mask
}

pub const V4_BLOCKS: &[([u8; 4], u32, Egress, &str)] = &[
    ([0, 0, 0, 0], 8, Egress::MustRefuse, "this-network/unspecified"),
    ([10, 0, 0, 0], 8, Egress::MustRefuse, "private"),
    ([100, 64, 0, 0], 10, Egress::MustRefuse, "shared-cgnat"),
    ([127, 0, 0, 0], 8, Egress::MustRefuse, "loopback"),
    ([169, 254, 0, 0], 16, Egress::MustRefuse, "link-local"),
    ([172, 16, 0, 0], 12, Egress::MustRefuse, "private"),
    // the two globally reachable anycast addresses inside 192.0.0.0/24 (IANA registry; the
    // endpoint's own documentation of is_global_ipv4 names them)
    ([192, 0, 0, 9], 32, Egress::MustAllow, "pcp-anycast"),
    ([192, 0, 0, 10], 32, Egress::MustAllow, "turn-anycast"),
    ([192, 0, 0, 0], 24, Egress::MustRefuse, "ietf-protocol-assignments(reserved)"),
    ([192, 0, 2, 0], 24, Egress::MustRefuse, "documentation"),
    ([192, 88, 99, 0], 24, Egress::Either, "6to4-relay-deprecated"),
    ([192, 168, 0, 0], 16, Egress::MustRefuse, "private"),
    ([198, 18, 0, 0], 15, Egress::Either, "benchmarking"),
    ([198, 51, 100, 0], 24, Egress::MustRefuse, "documentation"),
    ([203, 0, 113, 0], 24, Egress::MustRefuse, "documentation"),
    ([224, 0, 0, 0], 4, Egress::Either, "multicast"),
    ([240, 0, 0, 0], 4, Egress::MustRefuse, "reserved/broadcast"),
];

pub fn classify_v4(ip: Ipv4Addr) -> (Egress, &'static str) {
    for (net, len, e, name) in V4_BLOCKS {
        if in4(ip, *net, *len) {
            return (*e, name);
        }
    }
    (Egress::MustAllow, "global")
}

fn in6(ip: Ipv6Addr, net: [u16; 8], len: u32) -> bool {
    let a = u128::from(ip);
    let n = u128::from(Ipv6Addr::from(net));
    let mask = if len == 0 { 0 } else { u128::MAX << (128 - len) };
    a & mask == n & mask
}

pub const V6_BLOCKS: &[([u16; 8], u32, Egress, &str)] = &[
    ([0, 0, 0, 0, 0, 0, 0, 0], 128, Egress::MustRefuse, "unspecified"),
    ([0, 0, 0, 0, 0, 0, 0, 1], 128, Egress::MustRefuse, "loopback"),
    ([0xfe80, 0, 0, 0, 0, 0, 0, 0], 10, Egress::MustRefuse, "link-local"),
    ([0xfc00, 0, 0, 0, 0, 0, 0, 0], 7, Egress::MustRefuse, "unique-local"),
    ([0x2001, 0xdb8, 0, 0, 0, 0, 0, 0], 32, Egress::MustRefuse, "documentation"),
    ([0x2001, 0, 0, 0, 0, 0, 0, 0], 23, Egress::Either, "ietf-protocol-assignments"),
    ([0x2002, 0, 0, 0, 0, 0, 0, 0], 16, Egress::Either, "6to4"),
    ([0x3fff, 0, 0, 0, 0, 0, 0, 0], 20, Egress::Either, "documentation-rfc9637"),
];

pub fn classify_v6(ip: Ipv6Addr) -> (Egress, &'static str) {
    if let Some(v4) = ip.to_ipv4_mapped() {
        return match classify_v4(v4) {
            (Egress::MustRefuse, _) => (Egress::MustRefuse, "ipv4-mapped-special"),
            _ => (Egress::Either, "ipv4-mapped-global"),
        };
    }
    for (net, len, e, name) in V6_BLOCKS {
        if in6(ip, *net, *len) {
            return (*e, name);
        }
    }
    if in6(ip, [0x2000, 0, 0, 0, 0, 0, 0, 0], 3) {
        (Egress::MustAllow, "global-unicast")
    } else {
        (Egress::Either, "outside-2000::/3")
    }
}

pub fn classify(ip: IpAddr) -> (Egress, &'static str) {
    match ip {
        IpAddr::V4(x) => classify_v4(x),
        IpAddr::V6(x) => classify_v6(x),
    }
}

pub fn is_loopback_like(ip: IpAddr) -> bool {
    match ip {
        IpAddr::V4(x) => x.octets()[0] == 127,
        IpAddr::V6(x) => {
            x == Ipv6Addr::LOCALHOST
                || x.to_ipv4_mapped().map(|v| v.octets()[0] == 127).unwrap_or(false)
        }
    }
}

/// RFC 1071 one's complement sum over `data` (0 for a message whose checksum field is right)
pub fn rfc1071_verify(data: &[u8]) -> u16 {
    let mut sum: u32 = 0;
    let mut i = 0;
    while i + 1 < data.len() {
        sum += ((data[i] as u32) << 8) | data[i + 1] as u32;
        i += 2;
    }
    if i < data.len() {
        sum += (data[i] as u32) << 8;
    }
    while sum >> 16 != 0 {
        sum = (sum & 0xffff) + (sum >> 16);
    }
    !(sum as u16)
}
