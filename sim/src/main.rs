//! ttsim — deterministic simulation with fault injection for the TrustTunnel endpoint.

mod actors;
mod checks;
mod driver;
mod endpoint;
mod patht;
mod prng;
mod refmodel;
mod scenario;
mod scenarios;
mod sim;
mod tls;
mod world;

#[global_allocator]
static ALLOC: sim::CountingAlloc = sim::CountingAlloc;

fn usage() -> i32 {
    eprintln!(
        "usage: ttsim gen-assets | check <property> <quick|thorough> | worker ... | exec <file> [--trace] [--echo] |\n       replay <file> [--echo] | gen <scenario> <index> [tier] | run <scenario> <n> [tier] | list"
    );
    2
}

/// Re-execute this binary with the getrandom shim preloaded (once; see detrand.c)
fn preload_detrand() {
    use std::os::unix::process::CommandExt;
    let so = "/verif/target/detrand.so";
    if std::env::var_os("VERIF_DETRAND").is_some() || !std::path::Path::new(so).exists() {
        return;
    }
    let exe = match std::env::current_exe() {
        Ok(e) => e,
        Err(_) => return,
    };
    let mut preload = so.to_string();
    if let Ok(old) = std::env::var("LD_PRELOAD") {
        if !old.is_empty() {
            preload = format!("{}:{}", so, old);
        }
    }
    let err = std::process::Command::new(exe)
        .args(std::env::args_os().skip(1))
        .env("LD_PRELOAD", preload)
        .env("VERIF_DETRAND", "1")
        .exec();
    eprintln!("cannot re-execute with the getrandom shim ({}); continuing without it", err);
}

fn main() {
    preload_detrand();
    sim::install_panic_hook();
    sim::install_logger();
    let args: Vec<String> = std::env::args().skip(1).collect();
    let seed: u64 = std::env::var("VERIF_SEED")
        .ok()
        .and_then(|s| s.parse().ok())
        .unwrap_or(driver::DEFAULT_SEED);
    let code = match args.first().map(String::as_str) {
        Some("gen-assets") => match endpoint::gen_assets() {
            Ok(()) => 0,
            Err(e) => {
                eprintln!("gen-assets: {}", e);
                2
            }
        },
        Some("seq") if args.len() >= 3 => {
            // development: several plans back to back in this process, traces printed
            let scn = scenarios::by_name(&args[1]).expect("scenario");
            world::KEEP_TRACE.store(true, std::sync::atomic::Ordering::Relaxed);
            for a in &args[2..] {
                let idx: u64 = a.parse().expect("index");
                let o = sim::execute_isolated(scn, &scn.generate(seed, idx, scenario::Tier::Quick));
                println!("index {} hash {:016x}", idx, o.trace_hash);
                for e in world::take_kept_trace() {
                    println!("   {} {:?} {} {} {}", e.t_us, e.kind, e.obj, e.a, e.b);
                }
            }
            0
        }
        Some("determinism") if args.len() >= 3 => {
            // the proof obligation of DESIGN.md section 5: the same plans in different process
            // layouts must give the same traces
            let n: u64 = args[2].parse().expect("n");
            let names: Vec<String> = if args[1] == "all" {
                scenarios::all().iter().map(|s| s.name().to_string()).collect()
            } else {
                vec![args[1].clone()]
            };
            let mut bad = 0;
            for name in names {
                let scn = scenarios::by_name(&name).expect("scenario");
                let mut maps = Vec::new();
                for jobs in [1usize, 5, 16] {
                    let b = driver::run_batch(scn, seed, scenario::Tier::Quick, 0, n, jobs, None);
                    maps.push(b.hashes.iter().cloned().collect::<std::collections::BTreeMap<u64, u64>>());
                }
                let mut mismatch = 0;
                for (i, h) in &maps[0] {
                    if maps[1].get(i) != Some(h) || maps[2].get(i) != Some(h) {
                        mismatch += 1;
                        if mismatch <= 3 {
                            println!("  {} index {}: {:016x} / {:?} / {:?}", name, i, h, maps[1].get(i), maps[2].get(i));
                        }
                    }
                }
                println!("determinism {}: {} plans x 3 layouts, {} mismatches", name, maps[0].len(), mismatch);
                bad += mismatch;
            }
            if bad > 0 {
                2
            } else {
                0
            }
        }
        Some("scenarios") => {
            for s in scenarios::all() {
                println!("{}", s.name());
            }
            0
        }
        Some("list") => {
            for c in checks::all() {
                println!("{} {:?}", c.property, c.scenarios);
            }
            0
        }
        Some("check") if args.len() >= 3 => {
            let tier = match driver::parse_tier(&args[2]) {
                Some(t) => t,
                None => std::process::exit(usage()),
            };
            if let Err(e) = endpoint::gen_assets() {
                eprintln!("gen-assets: {}", e);
                std::process::exit(2);
            }
            let scale: f64 = std::env::var("VERIF_SCALE")
                .ok()
                .and_then(|s| s.parse().ok())
                .unwrap_or(1.0);
            match checks::all().into_iter().find(|c| c.property == args[1]) {
                Some(def) => {
                    // the parent runs no endpoint code: a panic here is a defect of the harness
                    // and must be loud, never a silent non-zero exit
                    sim::set_quiet_panics(false);
                    match std::panic::catch_unwind(|| driver::run_check(&def, tier, seed, scale).exit) {
                        Ok(code) => code,
                        Err(_) => {
                            println!("HARNESS-ERROR: the check driver panicked (see stderr); nothing it printed is to be believed");
                            2
                        }
                    }
                }
                None => {
                    eprintln!("no check for {}", args[1]);
                    2
                }
            }
        }
        Some("worker") if args.len() >= 7 => {
            let scn = scenarios::by_name(&args[1]).expect("scenario");
            let seed: u64 = args[2].parse().expect("seed");
            let tier = driver::parse_tier(&args[3]).expect("tier");
            let start: u64 = args[4].parse().expect("start");
            let stride: u64 = args[5].parse().expect("stride");
            let end: u64 = args[6].parse().expect("end");
            driver::worker(scn, seed, tier, start, stride, end);
            0
        }
        Some("exec") if args.len() >= 2 => driver::exec_main(
            &args[1],
            args.iter().any(|a| a == "--trace"),
            args.iter().any(|a| a == "--echo"),
        ),
        Some("replay") if args.len() >= 2 => {
            driver::replay_main(&args[1], args.iter().any(|a| a == "--echo"))
        }
        Some("minimise") if args.len() >= 4 => {
            // development: shrink a plan file while it keeps violating (property, key)
            let doc: serde_json::Value = serde_json::from_slice(&std::fs::read(&args[1]).expect("plan file")).expect("json");
            let name = doc["scenario"].as_str().expect("scenario").to_string();
            let (min, execs) = driver::minimise(&name, &doc["plan"], &args[2], &args[3], 400);
            eprintln!("{} executions", execs);
            println!("{}", serde_json::to_string_pretty(&serde_json::json!({"scenario": name, "plan": min})).unwrap());
            0
        }
        Some("gen") if args.len() >= 3 => {
            let scn = scenarios::by_name(&args[1]).expect("scenario");
            let idx: u64 = args[2].parse().expect("index");
            let tier = args
                .get(3)
                .and_then(|t| driver::parse_tier(t))
                .unwrap_or(scenario::Tier::Quick);
            println!(
                "{}",
                serde_json::to_string_pretty(&serde_json::json!({
                    "scenario": scn.name(),
                    "plan": scn.generate(seed, idx, tier)
                }))
                .unwrap()
            );
            0
        }
        Some("run") if args.len() >= 3 => {
            // ad-hoc batch for development: prints violations grouped by key
            let scn = scenarios::by_name(&args[1]).expect("scenario");
            let n: u64 = args[2].parse().expect("n");
            let tier = args
                .get(3)
                .and_then(|t| driver::parse_tier(t))
                .unwrap_or(scenario::Tier::Quick);
            let b = driver::run_batch(scn, seed, tier, 0, n, driver::jobs(), None);
            let mut by_key: std::collections::BTreeMap<String, (u64, u64, String)> =
                Default::default();
            for (i, v) in &b.violations {
                let e = by_key
                    .entry(format!("{} {}", v.property, v.key))
                    .or_insert((0, *i, v.detail.clone()));
                e.0 += 1;
                if *i < e.1 {
                    e.1 = *i;
                    e.2 = v.detail.clone();
                }
            }
            println!(
                "{} runs in {:.1}s ({} distinct traces, {} non-trivial, {} inconclusive), hangs {:?} crashes {:?}",
                b.evaluations,
                b.wall_s,
                b.all_hashes.len(),
                b.nontrivial_hashes.len(),
                b.inconclusive,
                b.hangs,
                b.crashes
            );
            for (k, (n, i, d)) in &by_key {
                println!("{:6} x {}   first index {}: {}", n, k, i, d);
            }
            for w in &b.worker_failures {
                println!("worker failure: {}", w);
            }
            println!("counters: {:?}", b.counters);
            println!("cells: {:?}", b.cells);
            0
        }
        _ => usage(),
    };
    std::process::exit(code);
}
