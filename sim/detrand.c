/* Preloaded into ttsim: std's RandomState draws its two 64-bit keys with one 16-byte
 * getrandom() per thread. Answering that request with a constant makes every hash map of a run
 * (each run executes on a fresh thread) behave the same in every process, so that iteration
 * order inside the code under test cannot make a replay differ. Every other request goes to
 * the kernel unchanged (TLS keys, nonces: the simulation does not own them). */
#define _GNU_SOURCE
#include <sys/types.h>
#include <sys/syscall.h>
#include <unistd.h>
#include <stddef.h>
#include <string.h>

ssize_t getrandom(void *buf, size_t len, unsigned int flags) {
    if (len == 16) {
        memset(buf, 0x5a, len);
        return (ssize_t)len;
    }
    return syscall(SYS_getrandom, buf, len, flags);
}
