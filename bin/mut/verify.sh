#!/bin/bash
# usage: verify.sh <id> <cargo test args...> : demo must fail with the bug and pass without it; baseline must pass with it
id=$1; shift
cd /tmp/mut/$id || exit 2
git checkout -q -- . 2>/dev/null; git clean -fdq -e _out -e target >/dev/null 2>&1
git apply _out/patch.diff && git apply _out/demo.diff || { echo "diffs do not apply"; exit 2; }
cargo test --offline "$@" > _out/with_bug.log 2>&1; rc_bug=$?
/tmp/mut/baseline.sh /tmp/mut/$id > _out/baseline_with_bug.log 2>&1; rc_base=$?
git apply -R _out/patch.diff || exit 2
cargo test --offline "$@" > _out/without_bug.log 2>&1; rc_ok=$?
echo "$id: demo with bug rc=$rc_bug (want !=0), without bug rc=$rc_ok (want 0), baseline with bug rc=$rc_base (want 0): $(head -1 _out/baseline_with_bug.log)"
