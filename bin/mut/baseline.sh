#!/bin/bash
# Runs the repository's own test-suite with the verification guard OFF and checks that
# every test of the pinned stable baseline (/root/.vp/BASELINE.json stable_pass) passes.
set -u
export CARGO_NET_OFFLINE=true
unset RUSTFLAGS
cd "${1:-/repo}" || exit 2
out=$(mktemp)
cargo nextest run --workspace --no-fail-fast --offline --test-threads 8 \
    --status-level pass --final-status-level none --failure-output never --success-output never \
    >"$out" 2>&1
python3 - "$out" <<'PY'
import json,re,sys
stable=json.load(open('/root/.vp/BASELINE.json'))['stable_pass']
txt=open(sys.argv[1]).read()
ok=set()
for m in re.finditer(r'^\s*PASS \[[^\]]*\]\s+(?:\(\s*\d+/\d+\)\s+)?(\S+)\s+(\S+)', txt, re.M):
    ok.add(m.group(1)+'::'+m.group(2))
missing=[t for t in stable if t not in ok]
print(f"baseline(guard off): {len(stable)-len(missing)}/{len(stable)} stable tests pass")
for t in missing: print("NOT PASSING:", t)
if missing: print(txt[-3000:])
sys.exit(1 if missing else 0)
PY
rc=$?
rm -f "$out"
exit $rc
