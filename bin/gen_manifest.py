#!/usr/bin/env python3
"""Writes /verif/MANIFEST.json from the table below (kept next to the checks it describes)."""
import json, subprocess

HOOK_COMMITS = subprocess.run(
    ["git", "-C", "/repo", "log", "--format=%h %s", "--grep=^verif hook"],
    capture_output=True, text=True).stdout.strip().splitlines()

TECH = "deterministic simulation with fault injection: real endpoint code on a seeded single-threaded tokio runtime with a virtual clock; sockets, resolver, peers and faults simulated behind cfg(trusttunnel_verif) seams; seeded search over plans, oracle over the recorded history, minimised replay files"

CHECKS = {
    "C02": dict(
        level="exploration",
        text="Seeded search over tunnel plans (protocol, windows, buffers, segmentations, gaps, stalls, idle-timer restarts, injected socket failures) executed against the real Tunnel/HttpDownstream/codec/TcpForwarder/DuplexPipe code; position-coded byte streams make loss, duplication and reordering visible; exploration is the right level because the property quantifies over schedules and fault positions that cannot be enumerated.",
        design="DESIGN.md section 8 (C02)",
        note="Trusted: the world's model of TCP, the h2 client used as the HTTP/2 peer, tokio's paused clock. HTTP/3 is not simulated.",
    ),
}

CHECKS["C01"] = dict(
    level="exploration",
    text="Seeded search over sessions of tunnel requests (22 Proxy-Authorization classes, 7 request kinds, 3 authenticator configurations, SNI-credential states, both protocols, multiplexed orders) against the real Tunnel five-way match, header parsing and authenticator; a reference authorisation table written from the statement decides 407 / no egress per request, and the world's connect/resolver census attributes every egress to one request.",
    design="DESIGN.md section 8 (C01)",
    note="Trusted: the h2 client as HTTP/2 peer, the world's socket model. TLS is skipped (SNI credentials are handed to the session door). HTTP/3 not simulated.",
)
CHECKS["C10"] = dict(
    level="exploration",
    text="Seeded search over request methods x authorities x every outcome of the outbound attempt (connect refused/unreachable/timed out/never/EMFILE, resolver error/empty/never, policy refusal) on both protocols; the status/X-Warning table of the statement is the oracle, the response-head count and the egress census decide 'exactly one' and 'never looked up'; the multi-request sessions of the authentication scenario are part of the check and decide '407 on an authentication failure' whatever was answered before on the same session.",
    design="DESIGN.md section 8 (C10)",
    note="Trusted: the world's connect-error model (errno values), the h2 client. Durations within 2 ms of the establishment time-out are undecided. HTTP/3 not simulated.",
)
CHECKS["C03"] = dict(
    level="exploration",
    text="Every boundary of every IANA special-purpose block in every spelling (IPv4 literal, IPv4-mapped literal, host name) under both policy values and a sweep of the first IPv6 hextet are enumerated; sessions with mixed multi-address resolver answers and DNS rebinding are sampled; an independent classifier (must-refuse / must-allow / either) and the connect census decide. Exploration rather than enumeration of 2^32 addresses: block-level changes are visible at the boundaries, the evidence states the sample.",
    design="DESIGN.md section 8 (C03)",
    note="Trusted: the reference classifier (IANA registries as of 2024), the world's resolver model. HTTP/3 not simulated.",
)

CHECKS["C08"] = dict(
    level="fault_enumeration",
    text="Every 1-cut of six canonical request inputs is enumerated (with and without an arrival gap); heads up to the limits, over-limit and malformed heads under 0-3 cuts, byte-at-a-time and random segmentations with arrival gaps are sampled; the reference says what the unsegmented input means (destination, payload, status) and the endpoint must behave identically; a spin is caught by a wall-clock watchdog around the worker process.",
    design="DESIGN.md section 8 (C08)",
    note="Trusted: the world's TCP model. 2- and 3-cuts of long inputs are sampled, not enumerated.",
)

CHECKS["C14"] = dict(
    level="exploration",
    text="Seeded search over activity patterns relative to the idle time-out (one-sided traffic, transfers at the deadline +-1 ms, half-close, back-pressure stalls), over connect/resolver durations around the establishment limit and over stalls of a TLS client's first and second flight around the handshake time-out, on tokio's virtual clock where a week costs microseconds; the oracle is a closure-time window computed from the last transfer the world recorded, plus the socket census.",
    design="DESIGN.md section 8 (C14)",
    note="Trusted: tokio's paused clock (1 ms wheel). All time-outs carry a sub-millisecond fraction (DESIGN.md 3.2); durations within 3 ms of a limit are undecided.",
)

CHECKS["C17"] = dict(
    level="exploration",
    text="Seeded search over requests and origin behaviours (interim responses, four body framings, hop-by-hop headers) under segmentation of the origin's byte stream and client back-pressure, through the real forwarded-stream state machines; a strict origin parser checks the forwarded request, a reference de-chunker the delivered body.",
    design="DESIGN.md section 8 (C17)",
    note="Trusted: the origin/client reference parsers, the h2 client. Two known findings are listed in known_findings.json. HTTP/3 not simulated.",
)

CHECKS["C18"] = dict(
    level="exploration",
    text="Seeded search over service requests (ping host and markers, speedtest N and L at and beyond their bounds, other paths/methods, reverse proxy by SNI and by path with loopback and public origins under both egress policies) driven through the real accept loop, TLS listener and demultiplexers with a rustls client; exact byte counts, status table and an egress monitor decide.",
    design="DESIGN.md section 8 (C18)",
    note="Trusted: rustls/h2 clients as peers; TLS ciphertext is not traced. N = 100 and L = 120 MiB bodies are sampled rarely (thorough) or probed by verdict-before-body. HTTP/3 not simulated.",
)

CHECKS["C16"] = dict(
    level="exploration",
    text="Seeded search over histories of session/tunnel life-cycles and transfers, scraped at quiescent points through the real metrics listener running inside Core::listen(); a conservation model and the world's socket census decide the gauges and counters, /health-check must answer 200.",
    design="DESIGN.md section 8 (C16)",
    note="Trusted: the Prometheus text parser of the harness; label values compared case-insensitively; UDP gauge checked in C07's scenario. HTTP/3 not simulated.",
)
CHECKS["C20"] = dict(
    level="exploration",
    text="The scenarios of C01, C10, C17, C18, C08, C02, C05 and C15 re-run with all log records captured at Trace level and unique canaries in every secret-bearing field; any record containing a canary verbatim, base64-decoded or hex-dumped is a violation keyed by its source line.",
    design="DESIGN.md section 8 (C20)",
    note="Only records reaching the log facade are seen; paths the other scenarios do not reach are not covered. Two known findings (trace records of the rustls dependency that print the server name) are listed in known_findings.json. HTTP/3 not simulated.",
)

CHECKS["C06"] = dict(
    level="exploration",
    text="Seeded search over record sequences (valid and invalid) and their segmentations, sent through a real _udp2 stream; an independent 6.3 encoder / 6.4 parser and the simulated UDP network decide that exactly the encoded datagrams leave, that invalid records are skipped whole, and that replies are framed as documented. Every 1-cut of long sequences is not enumerated: cuts are sampled (0-3 cuts, random pieces, byte-at-a-time).",
    design="DESIGN.md section 8 (C06)",
    note="Trusted: the harness's encoder/parser written from PROTOCOL.md. HTTP/3 not simulated.",
)
CHECKS["C07"] = dict(
    level="exploration",
    text="Seeded search over histories of flow operations, per-flow failures and time advances around the UDP time-out on the virtual clock; a flow-table reference model, the socket census, the gauge read through GET /metrics and the liveness of the multiplexer stream decide.",
    design="DESIGN.md section 8 (C07)",
    note="Trusted: the world's UDP socket model (connected sockets filter by peer, asynchronous errors surface on the next call). SOCKS5 UDP is covered by C15's scenario. HTTP/3 not simulated.",
)

CHECKS["C15"] = dict(
    level="exploration",
    text="Seeded search over credentials, destinations and server behaviours against a strict simulated SOCKS5 server that validates every byte the endpoint emits and misbehaves on plan (method selection, authentication status, reply code, bound-address type, truncation at every byte, byte-wise segmentation), including UDP associations with well- and malformed relayed datagrams.",
    design="DESIGN.md section 8 (C15)",
    note="Trusted: the harness's RFC 1928/1929 parser. HTTP/3 not simulated.",
)

CHECKS["C04"] = dict(
    level="exploration",
    text="Seeded search over rule lists (overlapping, malformed, masked, unknown actions; builder and rules_file incl. unreadable files), peer addresses (IPv4, IPv6, IPv4-mapped on dual-stack listeners) and byte-exact ClientHellos (fragmented, segmented, garbage) through the real accept loop; a reference evaluator written from CONFIGURATION.md decides allow / deny / either, and the observable is whether a ServerHello or nothing at all is written to the denied peer.",
    design="DESIGN.md section 8 (C04)",
    note="Trusted: the reference evaluator, the hand-built ClientHello encoder. The QUIC admission path is not run.",
)
CHECKS["C05"] = dict(
    level="exploration",
    text="Seeded search over host-class assignments with overlapping names, listen-protocol subsets, SNI and ALPN lists, interleaved with valid and storage-faulted reloads (missing / corrupt certificate, duplicate name, no main host) while handshakes are in flight; a rustls client observes certificate, ALPN and answering channel, a reference routing table per configuration generation decides; failed reloads must leave the previous generation in force.",
    design="DESIGN.md section 8 (C05)",
    note="Trusted: rustls client, reference routing table. HTTP/3 selection on QUIC is not run.",
)

CHECKS["C12"] = dict(
    level="exploration",
    text="Seeded search over ClientHello shapes (hand-built with post-quantum-sized key shares, padding and record fragmentation; rustls-made with small max_fragment_size; synthetic mutations) x delivery schedules (cuts, pieces, byte-at-a-time, gaps, FIN) x endpoint read sizes and read faults, fed to the real TlsListener::listen; an independent reader of the bytes sent decides 'exact or absent, never another value', and the SNI/ALPN seen by rustls behind the peek decide transparency; complete handshakes under segmentation run in the handshake scenario.",
    design="DESIGN.md section 8 (C12)",
    note="Trusted: the harness's ClientHello builder/reader, rustls as the TLS stack behind the peek. The QUIC clause is not run.",
)

CHECKS["C11"] = dict(
    level="exploration",
    text="Seeded search over histories of echo requests from several clients (colliding identifiers, all sizes, segmented records), replies and ICMP/ICMPv6 errors built around matching and non-matching requests, unrelated and malformed packets, and time advances around the request time-out, against the real ICMP forwarder running inside Core::listen() on simulated raw sockets; a waiter-table reference model, an independent RFC 1071 verifier and 7.3/7.4 codecs written from PROTOCOL.md decide.",
    design="DESIGN.md section 8 (C11)",
    note="Trusted: the harness's packet builders and the reference checksum. ICMPv6 checksums are the kernel's and not checked. The C glue (socket filters, interface binding) is not run.",
)

CHECKS["C19"] = dict(
    level="exploration",
    text="Seeded search over the instants of registration, submission (once or twice), termination and completion waiting for bare participants (through a door that registers exactly as Tunnel::listen does), real HTTP/1.1 and HTTP/2 sessions with tunnels in flight (half of the HTTP/2 clients behind 1-3 ms of one-way latency, sending a request that crosses the GOAWAY on the wire) and Core::listen(), all sharing one Shutdown; instants cluster within a microsecond of the submission so every order is reached; the oracle compares who noticed, how sessions wound down and when completion() returned with the instants participants actually finished.",
    design="DESIGN.md section 8 (C19)",
    note="Trusted: the h2 client's report of how its connection ended. endpoint/src/main.rs is not run.",
)

CHECKS["C09"] = dict(
    level="exploration",
    text="Seeded search over structurally mutated transcripts on ten untrusted surfaces under planned segmentations, with a bystander on the same endpoint, plus the hostile-peer runs of every other scenario; panics are attributed by backtrace (overflow checks compiled in), wedges are caught by a wall-clock watchdog around the worker process, heap growth per run is measured by a counting allocator, and the bystander must be served before and after.",
    design="DESIGN.md section 8 (C09)",
    note="The exhaustive-short-strings clause of the quantifier is not simulation and is not done. One known finding (an assertion inside the h2 crate reached through the endpoint's HTTP/2 server aborts the process) is listed in known_findings.json if it was reproduced; HTTP/3 not simulated.",
)

NOT_YET = {
}

NOT_APPLICABLE = {
    "C13": "pure function of file bytes (credentials/settings parsing, export, wizard round-trip, start-up predicates): no schedule, clock, peer or in-flight state for a fault to land in; input generation is not simulation (DESIGN.md section 9)",
}

def main():
    props = [json.loads(l)["id"] for l in open("/verif/properties.jsonl")]
    checks = []
    for pid in props:
        if pid not in CHECKS:
            continue
        c = CHECKS[pid]
        checks.append({
            "property_id": pid,
            "quick_cmd": f"bin/check {pid} quick",
            "thorough_cmd": f"bin/check {pid} thorough",
            "evidence_file": f"/verif/evidence/{pid}.json",
            "replay_cmd_template": "bin/ttsim replay {path}",
            "engine": "ttsim",
            "level_claimed": {"category": c["level"], "text": c["text"], "design_ref": c["design"]},
            "level_note": c["note"],
            "technique": TECH,
        })
    na = []
    for pid in props:
        if pid in CHECKS:
            continue
        if pid in NOT_APPLICABLE:
            na.append({"property_id": pid, "reason": NOT_APPLICABLE[pid]})
        else:
            na.append({"property_id": pid, "reason": NOT_YET.get(pid, "not claimed: its scenario is not finished in this revision of the framework (DESIGN.md section 12: unfinished scenarios are dropped rather than claimed with a weaker check)")})
    m = {
        "version": 1,
        "setup_cmd": "bin/setup",
        "hooks": {
            "guard": "--cfg trusttunnel_verif",
            "enable": "RUSTFLAGS='--cfg trusttunnel_verif --cfg tokio_unstable' via /verif/sim/.cargo/config.toml; the harness crate depends on /repo/lib by path, so every check rebuilds it from the working tree",
            "baseline_off_cmd": "bin/baseline_off",
            "source_commits": HOOK_COMMITS,
            "add_only": True,
        },
        "engines": [{
            "name": "ttsim",
            "path": "/verif/sim",
            "serves_properties": [c["property_id"] for c in checks],
            "kind_free_text": "deterministic discrete-event simulator around the real endpoint code (Rust, tokio current-thread, paused clock, seeded scheduler), worker processes with wall-clock watchdog, generic JSON plan shrinker, replay files",
        }],
        "checks": checks,
        "not_applicable": na,
        "notes": "exit 0 = property held on everything explored; exit 1 + 'VIOLATION property=<id> replay=<path>'; exit 2 = harness defect (nothing it says is to be believed). VERIF_SEED overrides the master seed, VERIF_JOBS the number of worker processes.",
    }
    json.dump(m, open("/verif/MANIFEST.json", "w"), indent=1)
    print("MANIFEST.json:", len(checks), "checks,", len(na), "not claimed")

main()
